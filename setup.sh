#!/bin/bash
# Build the framework offline from files on disk (run once after a fresh restore).
set -e
cd "$(dirname "${BASH_SOURCE[0]}")/engine"
export CARGO_NET_OFFLINE=true
for g in gen_data gen_hist gen_pairs gen_abi; do mkdir -p $g/src; [ -f $g/src/lib.rs ] || : > $g/src/lib.rs; done
cargo build -q -p vcore --bin typegen
./target/debug/typegen data --seed "${VERIF_SEED:-0}" --out gen_data/src --defs 120
./target/debug/typegen hist --seed "${VERIF_SEED:-0}" --out gen_hist/src --families 24
./target/debug/typegen pairs --seed "${VERIF_SEED:-0}" --out gen_pairs/src --defs 60
cargo build -q -p abigen --bin abigen
./target/debug/abigen --seed "${VERIF_SEED:-0}" --out gen_abi/src
cargo build -q -p checks
cargo build -q -p checks_abi
echo "setup ok"
