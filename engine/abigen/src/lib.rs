//! abigen: seeded generator of ABI interface families (IR -> Rust source for the generated crate
//! `gen_abi`), the reference model of version conversion, scripts and proptest strategies.
//! No dependency on savefile.
pub mod emit;
pub mod gen;
pub mod ir;
pub mod model;
pub mod script;
pub mod strat;
