pub mod placeholder {}
