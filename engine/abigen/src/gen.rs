//! Seeded generator of interface families. Generation is by construction: only trait shapes the
//! `#[savefile_abi_exportable]` macro is documented (README / crate docs / the repo's own tests)
//! to accept are produced. All randomness comes from `vcore::rng::Rng`.

use crate::ir::*;
use std::collections::BTreeMap;
use vcore::dv::DV;
use vcore::rng::Rng;

const VAL_PRIMS: [Prim; 12] = [
    Prim::U8,
    Prim::I8,
    Prim::U16,
    Prim::U32,
    Prim::I32,
    Prim::U64,
    Prim::I64,
    Prim::U128,
    Prim::Usize,
    Prim::Bool,
    Prim::F64,
    Prim::Char,
];

#[derive(Clone, Debug)]
pub struct FamOpts {
    pub n_revs: usize,
    pub async_trait: bool,
    pub futures: bool,
    pub wide: bool,
    pub breaking: Vec<BreakKind>,
    pub send_sync: bool,
    pub send_only: bool,
    /// scripted: def 0 is `struct { f0: usize }`; revision 1 removes f0 (AbiRemoved) and adds a u64 field with a
    /// default value in its place, and a method takes the struct by reference: both revisions then have one
    /// 8-byte integer at offset 0, but they are different fields
    pub ref_twin: bool,
    /// scripted: def 0 is `struct { f0: u8, f1: u32 }` (three padding bytes after f0); revision 1 adds a u8 field
    /// with a default value right after f0, i.e. inside the older layout's padding: size, alignment and the
    /// offsets of the old fields stay the same; a method takes the struct by reference
    pub pad_twin: bool,
    pub tag: &'static str,
}

struct G<'a> {
    rng: &'a mut Rng,
    defs: Vec<DataDef>,
    mcount: usize,
}

fn prim(rng: &mut Rng) -> DTy {
    DTy::Prim(*rng.pick(&VAL_PRIMS))
}

/// simple types: have a version-independent Default, usable for removed fields
fn simple_ty(rng: &mut Rng) -> DTy {
    match rng.weighted(&[5, 3, 1, 1]) {
        0 => prim(rng),
        1 => DTy::Str,
        2 => DTy::Vec(Box::new(DTy::Prim(*rng.pick(&[Prim::U8, Prim::U32, Prim::U64])))),
        _ => DTy::Opt(Box::new(DTy::Prim(*rng.pick(&[Prim::U32, Prim::I64])))),
    }
}

impl<'a> G<'a> {
    fn dty(&mut self, ndefs: usize, depth: usize) -> DTy {
        let w_def = if ndefs > 0 { 5 } else { 0 };
        let w_nest = if depth >= 2 { 0 } else { 1 };
        match self.rng.weighted(&[5, 3, w_nest, 2 * w_nest, w_nest, w_nest, w_def]) {
            0 => prim(self.rng),
            1 => DTy::Str,
            2 => DTy::Opt(Box::new(self.dty(ndefs, depth + 1))),
            3 => DTy::Vec(Box::new(self.dty(ndefs, depth + 1))),
            4 => {
                let n = self.rng.range(1, 3);
                DTy::Tuple((0..n).map(|_| self.dty(ndefs, depth + 1)).collect())
            }
            5 => DTy::Boxed(Box::new(self.dty(ndefs, depth + 2))),
            _ => DTy::Def(self.rng.below(ndefs)),
        }
    }

    fn gen_defs(&mut self, fam: usize) {
        let n = self.rng.range(2, 4);
        for d in 0..n {
            let is_enum = if d == 0 { false } else if d == 1 { true } else { self.rng.chance(2, 5) };
            if is_enum {
                let mut vars = vec![DVariant { name: "A".into(), fields: vec![], added: 0 }];
                for v in 0..self.rng.range(1, 3) {
                    let nf = self.rng.weighted(&[2, 3, 1]);
                    let fields = (0..nf).map(|_| self.dty(d, 1)).collect();
                    vars.push(DVariant { name: format!("V{}", v + 1), fields, added: 0 });
                }
                let repr_u8 = self.rng.chance(1, 3);
                self.defs.push(DataDef { name: format!("E{}x{}", fam, d), kind: DKind::Enum(vars), repr_u8 });
            } else {
                let nf = self.rng.range(1, 4);
                let fields = (0..nf)
                    .map(|i| {
                        let ty = if i == 0 { simple_ty(self.rng) } else { self.dty(d, 1) };
                        DField { name: format!("f{}", i), ty, added: 0, removed_at: None, default: DefaultKind::Trait, default_dv: None }
                    })
                    .collect();
                self.defs.push(DataDef { name: format!("S{}x{}", fam, d), kind: DKind::Struct(fields), repr_u8: false });
            }
        }
    }

    fn mname(&mut self, class: &str) -> String {
        self.mcount += 1;
        format!("m{}_{}", self.mcount - 1, class)
    }

    fn plain_arg(&mut self) -> ArgKind {
        let nd = self.defs.len();
        match self.rng.weighted(&[6, 4, 2, 2]) {
            0 => ArgKind::Val(if self.rng.chance(1, 12) { DTy::Unit } else { self.dty(nd, 0) }),
            1 => {
                // `&Box<T>` is rejected by the macro ("does not support reference to Box")
                let mut t = self.dty(nd, 0);
                while let DTy::Boxed(inner) = t {
                    t = *inner;
                }
                ArgKind::Ref(t)
            }
            2 => ArgKind::StrRef,
            _ => ArgKind::Slice(match self.rng.weighted(&[3, 2, 2, if nd > 0 { 3 } else { 0 }]) {
                0 => DTy::Prim(Prim::U32),
                1 => DTy::Prim(Prim::U8),
                2 => DTy::Str,
                _ => DTy::Def(self.rng.below(nd)),
            }),
        }
    }

    fn val_arg(&mut self) -> ArgKind {
        let nd = self.defs.len();
        ArgKind::Val(self.dty(nd, 0))
    }

    fn ret_data(&mut self) -> RetKind {
        let nd = self.defs.len();
        match self.rng.weighted(&[1, 6, 2]) {
            0 => RetKind::Unit,
            1 => RetKind::Val(self.dty(nd, 0)),
            _ => {
                let ok = self.dty(nd, 0);
                let err = match self.rng.weighted(&[3, 2, 1, 2]) {
                    0 => DTy::Str,
                    1 => DTy::Prim(Prim::U32),
                    2 => DTy::Unit,
                    _ => self.dty(nd, 1),
                };
                RetKind::Res(ok, err)
            }
        }
    }

    fn fnsig(&mut self) -> FnSig {
        let nd = self.defs.len();
        let n = self.rng.weighted(&[1, 4, 3]);
        let mut args = vec![];
        for _ in 0..n {
            let ty = match self.rng.weighted(&[4, 2, 4]) {
                0 => prim(self.rng),
                1 => DTy::Str,
                _ => DTy::Def(self.rng.below(nd)),
            };
            args.push(FnArg { ty, by_ref: self.rng.chance(2, 5) });
        }
        let ret = match self.rng.weighted(&[1, 3, 2, 4]) {
            0 => DTy::Unit,
            1 => prim(self.rng),
            2 => DTy::Str,
            _ => DTy::Def(self.rng.below(nd)),
        };
        FnSig { args, ret }
    }

    fn args_named(kinds: Vec<ArgKind>) -> Vec<Arg> {
        kinds.into_iter().enumerate().map(|(i, kind)| Arg { name: format!("a{}", i), kind }).collect()
    }

    fn m_plain(&mut self, nargs: usize) -> Method {
        let kinds = (0..nargs).map(|_| self.plain_arg()).collect();
        Method {
            name: self.mname("plain"),
            mut_self: self.rng.chance(1, 3),
            is_async: false,
            args: Self::args_named(kinds),
            ret: self.ret_data(),
            class: "plain".into(),
        }
    }

    /// arguments and return value are exactly one evolving def: makes both directions of C10
    /// non-trivial in every family
    fn m_roundtrip(&mut self, def: usize) -> Method {
        let by_ref = self.rng.chance(1, 2);
        let a = if by_ref { ArgKind::Ref(DTy::Def(def)) } else { ArgKind::Val(DTy::Def(def)) };
        let mut kinds = vec![a];
        if self.rng.chance(1, 2) {
            kinds.push(ArgKind::Val(prim(self.rng)));
        }
        Method {
            name: self.mname("roundtrip"),
            mut_self: self.rng.chance(1, 3),
            is_async: false,
            args: Self::args_named(kinds),
            ret: RetKind::Val(DTy::Def(def)),
            class: "roundtrip".into(),
        }
    }

    fn m_callback(&mut self) -> Method {
        let mut kinds = vec![];
        for _ in 0..self.rng.below(3) {
            kinds.push(self.plain_arg());
        }
        for _ in 0..self.rng.range(1, 2) {
            let k = match self.rng.weighted(&[4, 3, 3, 2, 2, 3]) {
                0 => ArgKind::DynFn(self.fnsig()),
                1 => ArgKind::DynFnMut(self.fnsig()),
                2 => ArgKind::BoxFn { sig: self.fnsig(), send_sync: self.rng.chance(1, 3) },
                3 => ArgKind::DynObj,
                4 => ArgKind::DynObjMut,
                _ => ArgKind::BoxObj,
            };
            let pos = self.rng.below(kinds.len() + 1);
            kinds.insert(pos, k);
        }
        Method {
            name: self.mname("callback"),
            mut_self: self.rng.chance(1, 3),
            is_async: false,
            args: Self::args_named(kinds),
            ret: self.ret_data(),
            class: "callback".into(),
        }
    }

    fn m_retobj(&mut self) -> Method {
        let mut kinds = vec![];
        for _ in 0..self.rng.below(3) {
            kinds.push(self.plain_arg());
        }
        let ret = match self.rng.weighted(&[3, 3, 2]) {
            0 => RetKind::BoxObj,
            1 => RetKind::BoxFn(self.fnsig()),
            _ => RetKind::ResBoxFn(self.fnsig()),
        };
        Method { name: self.mname("retobj"), mut_self: self.rng.chance(1, 3), is_async: false, args: Self::args_named(kinds), ret, class: "retobj".into() }
    }

    fn m_future(&mut self) -> Method {
        let kinds = (0..self.rng.below(4)).map(|_| self.val_arg()).collect();
        let nd = self.defs.len();
        let t = self.dty(nd, 0);
        Method {
            name: self.mname("future"),
            mut_self: self.rng.chance(1, 2),
            is_async: false,
            args: Self::args_named(kinds),
            ret: RetKind::Future(t),
            class: "boxed_future".into(),
        }
    }

    fn m_async(&mut self) -> Method {
        let kinds = (0..self.rng.below(4)).map(|_| self.val_arg()).collect();
        let nd = self.defs.len();
        let ret = if self.rng.chance(1, 6) { RetKind::Unit } else { RetKind::Val(self.dty(nd, 0)) };
        Method { name: self.mname("async"), mut_self: self.rng.chance(1, 2), is_async: true, args: Self::args_named(kinds), ret, class: "async_trait".into() }
    }

    fn m_wide(&mut self, n: usize) -> Method {
        let mut kinds = vec![];
        for i in 0..n {
            let k = match (i * 7 + self.rng.below(5)) % 13 {
                0 => ArgKind::Val(DTy::Prim(Prim::U8)),
                1 => ArgKind::Val(DTy::Prim(Prim::U32)),
                2 => ArgKind::Ref(DTy::Prim(Prim::U32)),
                3 => ArgKind::Val(DTy::Prim(Prim::U64)),
                4 => ArgKind::Val(DTy::Prim(Prim::Bool)),
                5 => ArgKind::Val(DTy::Str),
                6 => ArgKind::StrRef,
                7 => ArgKind::Val(DTy::Prim(Prim::I64)),
                8 => ArgKind::Ref(DTy::Str),
                9 => ArgKind::Val(DTy::Prim(Prim::F64)),
                10 => ArgKind::Val(DTy::Tuple(vec![DTy::Prim(Prim::U32), DTy::Prim(Prim::U16)])),
                11 => ArgKind::Val(DTy::Opt(Box::new(DTy::Prim(Prim::U32)))),
                _ => ArgKind::Val(DTy::Prim(Prim::U16)),
            };
            kinds.push(k);
        }
        Method {
            name: self.mname(&format!("wide{}", n)),
            mut_self: false,
            is_async: false,
            args: Self::args_named(kinds),
            ret: RetKind::Val(DTy::Prim(Prim::U64)),
            class: format!("wide{}", n),
        }
    }

    /// baseline method present in every family (victim of the labelled breaking edits)
    fn m_base(&mut self) -> Method {
        Method {
            name: self.mname("base"),
            mut_self: false,
            is_async: false,
            args: Self::args_named(vec![ArgKind::Val(DTy::Prim(Prim::U32)), ArgKind::Val(DTy::Str)]),
            ret: RetKind::Val(DTy::Prim(Prim::U64)),
            class: "base".into(),
        }
    }

    fn random_method(&mut self, o: &FamOpts) -> Method {
        if o.async_trait {
            return if self.rng.chance(4, 5) { self.m_async() } else { self.m_plain_val_only() };
        }
        let w_fut = if o.futures { 6 } else { 1 };
        match self.rng.weighted(&[6, 5, 3, w_fut]) {
            0 => {
                let n = self.rng.weighted(&[1, 3, 3, 2, 1, 1, 1, 1, 2]);
                self.m_plain(n)
            }
            1 => self.m_callback(),
            2 => self.m_retobj(),
            _ => self.m_future(),
        }
    }

    fn m_plain_val_only(&mut self) -> Method {
        let n = self.rng.range(0, 3);
        let kinds = (0..n).map(|_| self.val_arg()).collect();
        Method { name: self.mname("plain"), mut_self: self.rng.chance(1, 3), is_async: false, args: Self::args_named(kinds), ret: self.ret_data(), class: "plain".into() }
    }
}

fn default_for(rng: &mut Rng, ty: &DTy) -> (DefaultKind, Option<DV>) {
    match ty {
        DTy::Prim(p) if p.is_int() && rng.chance(1, 2) => {
            let v = rng.range(1, 120) as u128;
            (DefaultKind::Val(v.to_string()), Some(DV::N(v)))
        }
        DTy::Str if rng.chance(1, 2) => {
            let s = format!("dflt{}", rng.below(100));
            (DefaultKind::Val(s.clone()), Some(DV::S(s)))
        }
        _ => (DefaultKind::Trait, None),
    }
}

/// Apply one compatible data edit at version `k`. Returns its label, or None if not applicable.
fn data_edit(rng: &mut Rng, defs: &mut Vec<DataDef>, k: u32, want: usize) -> Option<&'static str> {
    let nd = defs.len();
    let start = rng.below(nd);
    for off in 0..nd {
        let di = (start + off) % nd;
        let d = &mut defs[di];
        match (&mut d.kind, want) {
            (DKind::Struct(fields), 0) => {
                // add a field (any position)
                let ty = match rng.weighted(&[5, 1, if di > 0 { 2 } else { 0 }]) {
                    0 => simple_ty(rng),
                    1 => DTy::Tuple(vec![simple_ty(rng), simple_ty(rng)]),
                    _ => DTy::Def(rng.below(di)),
                };
                let (default, default_dv) = default_for(rng, &ty);
                let pos = rng.below(fields.len() + 1);
                let name = format!("g{}v{}", fields.len(), k);
                fields.insert(pos, DField { name, ty, added: k, removed_at: None, default, default_dv });
                return Some("field_added");
            }
            (DKind::Struct(fields), 1) => {
                // remove a field of a simple type, keeping at least one live field
                let live: Vec<usize> = (0..fields.len()).filter(|i| fields[*i].live_at(k)).collect();
                let cands: Vec<usize> = live
                    .iter()
                    .copied()
                    .filter(|i| {
                        let t = &fields[*i].ty;
                        fields[*i].added < k
                            && matches!(t, DTy::Prim(_) | DTy::Str)
                            || fields[*i].added < k && matches!(t, DTy::Vec(a) | DTy::Opt(a) if matches!(**a, DTy::Prim(_)))
                    })
                    .collect();
                if live.len() >= 2 && !cands.is_empty() {
                    let i = *rng.pick(&cands);
                    fields[i].removed_at = Some(k);
                    return Some("field_removed");
                }
            }
            (DKind::Enum(vars), 2) => {
                let nf = rng.weighted(&[2, 2]);
                let fields = (0..nf).map(|_| simple_ty(rng)).collect();
                let name = format!("W{}v{}", vars.len(), k);
                vars.push(DVariant { name, fields, added: k });
                return Some("variant_added");
            }
            _ => {}
        }
    }
    None
}

fn breaking_rev(rng: &mut Rng, fam: &Family, base: usize, kind: BreakKind, bi: usize) -> Rev {
    let b = &fam.revs[base];
    let mut methods = b.methods.clone();
    // victim: the baseline method (always present, plain prim/String signature)
    let mut vi = methods.iter().position(|m| m.class == "base").expect("base method");
    let mut kind = kind;
    if kind == BreakKind::ClosureArgsChanged {
        // victim: the first method taking a closure
        match methods.iter().position(|m| m.args.iter().any(|a| matches!(a.kind, ArgKind::DynFn(_) | ArgKind::DynFnMut(_) | ArgKind::BoxFn { .. }))) {
            Some(i) => vi = i,
            None => kind = BreakKind::ArgCountChanged,
        }
    }
    let victim = methods[vi].name.clone();
    match kind {
        BreakKind::ClosureArgsChanged => {
            let a = methods[vi].args.iter_mut().find(|a| matches!(a.kind, ArgKind::DynFn(_) | ArgKind::DynFnMut(_) | ArgKind::BoxFn { .. })).unwrap();
            let sig = match &mut a.kind {
                ArgKind::DynFn(s) | ArgKind::DynFnMut(s) => s,
                ArgKind::BoxFn { sig, .. } => sig,
                _ => unreachable!(),
            };
            if sig.args.is_empty() {
                sig.args.push(FnArg { ty: DTy::Prim(Prim::U32), by_ref: false });
            } else {
                sig.args.pop();
            }
        }
        BreakKind::MethodRemoved => {
            methods.remove(vi);
        }
        BreakKind::ArgCountChanged => {
            if rng.chance(1, 2) {
                let n = methods[vi].args.len();
                methods[vi].args.push(Arg { name: format!("a{}", n), kind: ArgKind::Val(DTy::Prim(Prim::U32)) });
            } else {
                methods[vi].args.pop();
            }
        }
        BreakKind::ArgTypeChanged => {
            let which = rng.below(2);
            methods[vi].args[which].kind = if which == 0 { ArgKind::Val(DTy::Prim(Prim::U64)) } else { ArgKind::Val(DTy::Vec(Box::new(DTy::Prim(Prim::U8)))) };
        }
        BreakKind::RetTypeChanged => {
            methods[vi].ret = if rng.chance(1, 2) { RetKind::Val(DTy::Prim(Prim::U32)) } else { RetKind::Val(DTy::Str) };
        }
    }
    // the same version number as the base, or the next one (an unversioned change under a bump)
    let max_v = fam.revs.iter().filter(|r| !r.is_breaking()).map(|r| r.version).max().unwrap();
    let version = if rng.chance(1, 2) && b.version < max_v { b.version + 1 } else { b.version };
    Rev { module: format!("b{}", bi), version, methods, label: RevLabel::Breaking { base, kind, method: victim }, edits: vec![kind.label().to_string()] }
}

pub fn gen_family(rng: &mut Rng, idx: usize, o: &FamOpts) -> Family {
    let mut g = G { rng, defs: vec![], mcount: 0 };
    g.gen_defs(idx);
    let mut methods = vec![g.m_base()];
    if o.ref_twin {
        g.defs[0] = DataDef {
            name: format!("S{}x0", idx),
            kind: DKind::Struct(vec![DField { name: "f0".into(), ty: DTy::Prim(Prim::Usize), added: 0, removed_at: None, default: DefaultKind::Trait, default_dv: None }]),
            repr_u8: false,
        };
        methods.push(Method {
            name: g.mname("roundtrip"),
            mut_self: true,
            is_async: false,
            args: G::args_named(vec![ArgKind::Ref(DTy::Def(0))]),
            ret: RetKind::Val(DTy::Def(0)),
            class: "roundtrip".into(),
        });
    }
    if o.pad_twin {
        let fld = |n: &str, p: Prim| DField { name: n.into(), ty: DTy::Prim(p), added: 0, removed_at: None, default: DefaultKind::Trait, default_dv: None };
        g.defs[0] = DataDef { name: format!("S{}x0", idx), kind: DKind::Struct(vec![fld("f0", Prim::U8), fld("f1", Prim::U32)]), repr_u8: true };
        methods.push(Method {
            name: g.mname("roundtrip"),
            mut_self: true,
            is_async: false,
            args: G::args_named(vec![ArgKind::Ref(DTy::Def(0))]),
            ret: RetKind::Val(DTy::Def(0)),
            class: "roundtrip".into(),
        });
    }
    if o.wide {
        methods.push(g.m_wide(33));
        methods.push(g.m_wide(63));
        methods.push(g.m_wide(64));
        let n = g.rng.range(5, 8);
        methods.push(g.m_plain(n));
    } else if o.async_trait {
        for _ in 0..g.rng.range(3, 4) {
            methods.push(g.m_async());
        }
        methods.push(g.m_plain_val_only());
    } else {
        // every def travels in both directions at least once
        let nd = g.defs.len();
        for d in 0..nd {
            if d < 2 || g.rng.chance(1, 2) {
                methods.push(g.m_roundtrip(d));
            }
        }
        if o.futures {
            methods.push(g.m_future());
            methods.push(g.m_future());
        }
        methods.push(g.m_callback());
        for _ in 0..g.rng.range(1, 3) {
            let m = g.random_method(o);
            methods.push(m);
        }
    }
    if o.async_trait {
        // async methods over an evolving def (argument and return)
        let nd = g.defs.len();
        let d = g.rng.below(nd);
        let mut m = g.m_async();
        m.args = G::args_named(vec![ArgKind::Val(DTy::Def(d)), ArgKind::Val(DTy::Prim(Prim::U32))]);
        m.ret = RetKind::Val(DTy::Def(d));
        methods.push(m);
    }
    let mut revs = vec![Rev { module: "v0".into(), version: 0, methods: methods.clone(), label: RevLabel::Compat, edits: vec![] }];
    for k in 1..o.n_revs {
        let mut edits = vec![];
        let nedits = g.rng.range(1, 2);
        // the first data edit of a family is a field addition (the documented example), later
        // ones are chosen freely
        if o.ref_twin && k == 1 {
            if let DKind::Struct(fields) = &mut g.defs[0].kind {
                fields[0].removed_at = Some(1);
                fields.insert(0, DField { name: "g0v1".into(), ty: DTy::Prim(Prim::U64), added: 1, removed_at: None, default: DefaultKind::Val("38".into()), default_dv: Some(DV::N(38)) });
            }
            edits.push("field_replaced_by_other_field_of_same_layout".to_string());
        }
        if o.pad_twin && k == 1 {
            if let DKind::Struct(fields) = &mut g.defs[0].kind {
                fields.insert(1, DField { name: "g0v1".into(), ty: DTy::Prim(Prim::U8), added: 1, removed_at: None, default: DefaultKind::Val("77".into()), default_dv: Some(DV::N(77)) });
            }
            edits.push("field_added_inside_padding".to_string());
        }
        for e in 0..nedits {
            let want = if k == 1 && e == 0 { 0 } else { g.rng.weighted(&[4, 3, 3, 3]) };
            if want == 3 {
                let m = g.random_method(o);
                let pos = g.rng.below(methods.len() + 1);
                methods.insert(pos, m);
                edits.push("method_added".to_string());
            } else if let Some(l) = data_edit(g.rng, &mut g.defs, k as u32, want) {
                edits.push(l.to_string());
            } else if let Some(l) = data_edit(g.rng, &mut g.defs, k as u32, 0) {
                edits.push(l.to_string());
            }
        }
        // method order is not part of the interface (methods are matched by name): permute sometimes
        if g.rng.chance(1, 3) && methods.len() > 2 {
            let a = g.rng.below(methods.len());
            let b = g.rng.below(methods.len());
            methods.swap(a, b);
            edits.push("methods_reordered".to_string());
        }
        revs.push(Rev { module: format!("v{}", k), version: k as u32, methods: methods.clone(), label: RevLabel::Compat, edits });
    }
    let defs = g.defs;
    let mut fam = Family {
        name: format!("Fam{}", idx),
        module: format!("fam{}", idx),
        defs,
        revs,
        async_trait: o.async_trait,
        send_sync: o.send_sync,
        send_only: o.send_only && !o.send_sync,
        tags: vec![o.tag.to_string()],
    };
    for (bi, kind) in o.breaking.iter().enumerate() {
        let compat = fam.compat_revs();
        let base = compat[rng.below(compat.len())];
        let r = breaking_rev(rng, &fam, base, *kind, bi);
        fam.revs.push(r);
    }
    fam
}

pub fn batch_stats(fams: &[Family]) -> BTreeMap<String, usize> {
    let mut s: BTreeMap<String, usize> = BTreeMap::new();
    let mut inc = |k: String| *s.entry(k).or_insert(0) += 1;
    for f in fams {
        inc("families".into());
        if f.async_trait {
            inc("families.async_trait".into());
        }
        if f.send_sync {
            inc("families.send_sync".into());
        }
        if f.send_only {
            inc("families.send_only".into());
        }
        for t in &f.tags {
            inc(format!("families.tag.{}", t));
        }
        inc(format!("families.revisions.{}", f.revs.len()));
        for d in &f.defs {
            match &d.kind {
                DKind::Struct(_) => inc("defs.struct".into()),
                DKind::Enum(_) => inc(if d.repr_u8 { "defs.enum.repr_u8".into() } else { "defs.enum".into() }),
            }
        }
        for r in &f.revs {
            inc("trait_versions".into());
            for e in &r.edits {
                inc(format!("edits.{}", e));
            }
            if let RevLabel::Breaking { kind, .. } = &r.label {
                inc(format!("revisions.breaking.{}", kind.label()));
            }
            for m in &r.methods {
                inc("methods".into());
                inc(format!("methods.class.{}", m.class));
                inc(format!("methods.receiver.{}", if m.mut_self { "mut_self" } else { "self" }));
                let n = m.args.len();
                let b = if n <= 8 { format!("{}", n) } else { format!("{}", n) };
                inc(format!("methods.argcount.{:0>2}", b));
                inc(format!("methods.ret.{}", m.ret.label()));
                for a in &m.args {
                    inc(format!("args.{}", a.kind.label()));
                }
            }
        }
    }
    s
}

/// One batch: half of the families come from a fixed seed (regression part), the others from
/// `seed`. `scale` multiplies the number of seeded families (thorough tier).
pub fn gen_batch(seed: u64, scale: usize) -> Batch {
    let mut fixed = Rng::new(0x5AFE_AB1);
    let mut seeded = Rng::new(seed.wrapping_mul(0x9E37_79B9_7F4A_7C15) ^ 0xAB1_D1CE);
    let all_breaks = [BreakKind::MethodRemoved, BreakKind::ArgCountChanged, BreakKind::ArgTypeChanged, BreakKind::RetTypeChanged, BreakKind::ClosureArgsChanged];
    let mut fams = vec![];
    let mut idx = 0;
    let mut push = |rng: &mut Rng, o: FamOpts, fams: &mut Vec<Family>| {
        let mut r = rng.fork();
        fams.push(gen_family(&mut r, idx, &o));
        idx += 1;
    };
    let base = FamOpts { n_revs: 1, async_trait: false, futures: false, wide: false, breaking: vec![], send_sync: false, send_only: false, ref_twin: false, pad_twin: false, tag: "compat" };
    // fixed part
    push(&mut fixed, FamOpts { wide: true, tag: "wide", ..base.clone() }, &mut fams);
    push(&mut fixed, FamOpts { n_revs: 2, async_trait: true, send_sync: true, tag: "async_trait", ..base.clone() }, &mut fams);
    push(&mut fixed, FamOpts { n_revs: 2, futures: true, tag: "boxed_future", ..base.clone() }, &mut fams);
    push(&mut fixed, FamOpts { n_revs: 3, ..base.clone() }, &mut fams);
    push(&mut fixed, FamOpts { n_revs: 2, send_only: true, tag: "send_only", ..base.clone() }, &mut fams);
    push(&mut fixed, FamOpts { n_revs: 2, ref_twin: true, tag: "ref_twin", ..base.clone() }, &mut fams);
    push(&mut fixed, FamOpts { n_revs: 2, pad_twin: true, tag: "pad_twin", ..base.clone() }, &mut fams);
    push(&mut fixed, FamOpts { n_revs: 4, send_sync: true, ..base.clone() }, &mut fams);
    push(&mut fixed, FamOpts { n_revs: 2, breaking: all_breaks.to_vec(), tag: "breaking", ..base.clone() }, &mut fams);
    push(&mut fixed, FamOpts { n_revs: 2, async_trait: true, send_sync: true, breaking: vec![BreakKind::ArgTypeChanged], tag: "breaking", ..base.clone() }, &mut fams);
    // seeded part
    for s in 0..scale.max(1) {
        let nrev = |r: &mut Rng| r.range(2, 4);
        let n = nrev(&mut seeded);
        push(&mut seeded, FamOpts { n_revs: n, ..base.clone() }, &mut fams);
        let n = nrev(&mut seeded);
        push(&mut seeded, FamOpts { n_revs: n, send_sync: true, ..base.clone() }, &mut fams);
        let n = nrev(&mut seeded);
        push(&mut seeded, FamOpts { n_revs: n, futures: true, ..base.clone() }, &mut fams);
        let n = nrev(&mut seeded);
        push(&mut seeded, FamOpts { n_revs: n, send_only: true, tag: "send_only", ..base.clone() }, &mut fams);
        if s == 0 {
            push(&mut seeded, FamOpts { n_revs: 2, async_trait: true, send_sync: true, tag: "async_trait", ..base.clone() }, &mut fams);
        }
        let k1 = all_breaks[seeded.below(all_breaks.len())];
        let k2 = all_breaks[seeded.below(all_breaks.len())];
        let n = seeded.range(1, 3);
        push(&mut seeded, FamOpts { n_revs: n, breaking: vec![k1, k2], tag: "breaking", ..base.clone() }, &mut fams);
    }
    let stats = batch_stats(&fams);
    Batch { seed, families: fams, stats }
}
