//! IR of generated ABI interface families. Serde-serialisable: it is the replay format for
//! definitions, the input of the emitter and the input of the reference model. It never
//! refers to savefile.
//!
//! DV encoding of values (relative to a DTy, at a given revision's version):
//!   ints/bool/char/float bits : N     String : S     () : L([])
//!   Option : V(0,[]) / V(1,[x])       Vec/tuple : L(items)     Box<T> : as T
//!   struct : L(live fields in declaration order)   enum : V(variant index, fields)
//!   Result : V(1,[ok]) / V(0,[err])

use serde::{Deserialize, Serialize};
use std::collections::BTreeMap;
use vcore::dv::DV;
pub use vcore::ir::Prim;

#[derive(Clone, Debug, PartialEq, Eq, Hash, Serialize, Deserialize)]
pub enum DTy {
    Prim(Prim),
    Str,
    Unit,
    Opt(Box<DTy>),
    Vec(Box<DTy>),
    Tuple(Vec<DTy>),
    Boxed(Box<DTy>),
    Def(usize),
}

#[derive(Clone, Debug, PartialEq, Eq, Hash, Serialize, Deserialize)]
pub enum DefaultKind {
    /// `Default::default()`
    Trait,
    /// `#[savefile_default_val = "text"]`
    Val(String),
}

#[derive(Clone, Debug, PartialEq, Serialize, Deserialize)]
pub struct DField {
    pub name: String,
    pub ty: DTy,
    /// first version in which the field exists
    pub added: u32,
    /// first version in which the field is gone (`AbiRemoved<T>`, range `added..removed_at-1`)
    pub removed_at: Option<u32>,
    pub default: DefaultKind,
    /// value of the default attribute (only for Val)
    pub default_dv: Option<DV>,
}

impl DField {
    /// does the field hold a value in memory in the revision whose version is `k`
    pub fn live_at(&self, k: u32) -> bool {
        self.added <= k && self.removed_at.map_or(true, |r| k < r)
    }
    /// does the source of the revision with version `k` mention the field at all
    pub fn emitted_at(&self, k: u32) -> bool {
        self.added <= k
    }
    /// is the field part of the serialized form at data version `m`
    pub fn on_wire(&self, m: u32) -> bool {
        self.added <= m && self.removed_at.map_or(true, |r| m < r)
    }
}

#[derive(Clone, Debug, PartialEq, Serialize, Deserialize)]
pub struct DVariant {
    pub name: String,
    pub fields: Vec<DTy>,
    pub added: u32,
}

#[derive(Clone, Debug, PartialEq, Serialize, Deserialize)]
pub enum DKind {
    Struct(Vec<DField>),
    Enum(Vec<DVariant>),
}

#[derive(Clone, Debug, PartialEq, Serialize, Deserialize)]
pub struct DataDef {
    pub name: String,
    pub kind: DKind,
    /// `#[repr(u8)]` on an enum; `#[repr(C)]` on a struct
    pub repr_u8: bool,
}

#[derive(Clone, Debug, PartialEq, Serialize, Deserialize)]
pub struct FnArg {
    pub ty: DTy,
    pub by_ref: bool,
}

#[derive(Clone, Debug, PartialEq, Serialize, Deserialize)]
pub struct FnSig {
    pub args: Vec<FnArg>,
    pub ret: DTy,
}

#[derive(Clone, Debug, PartialEq, Serialize, Deserialize)]
pub enum ArgKind {
    /// `x: T`
    Val(DTy),
    /// `x: &T`
    Ref(DTy),
    /// `x: &str`
    StrRef,
    /// `x: &[T]`
    Slice(DTy),
    /// `x: &dyn Fn(..) -> R`
    DynFn(FnSig),
    /// `x: &mut dyn FnMut(..) -> R`
    DynFnMut(FnSig),
    /// `x: Box<dyn Fn(..) -> R [+ Send + Sync]>`
    BoxFn { sig: FnSig, send_sync: bool },
    /// `x: &dyn Cb`
    DynObj,
    /// `x: &mut dyn Cb`
    DynObjMut,
    /// `x: Box<dyn Cb>`
    BoxObj,
}

impl ArgKind {
    pub fn is_callback(&self) -> bool {
        !matches!(self, ArgKind::Val(_) | ArgKind::Ref(_) | ArgKind::StrRef | ArgKind::Slice(_))
    }
    pub fn sig(&self) -> Option<&FnSig> {
        match self {
            ArgKind::DynFn(s) | ArgKind::DynFnMut(s) | ArgKind::BoxFn { sig: s, .. } => Some(s),
            _ => None,
        }
    }
    pub fn label(&self) -> &'static str {
        match self {
            ArgKind::Val(_) => "val",
            ArgKind::Ref(_) => "ref",
            ArgKind::StrRef => "str",
            ArgKind::Slice(_) => "slice",
            ArgKind::DynFn(_) => "dyn_fn",
            ArgKind::DynFnMut(_) => "dyn_fnmut",
            ArgKind::BoxFn { .. } => "box_fn",
            ArgKind::DynObj => "dyn_obj",
            ArgKind::DynObjMut => "dyn_obj_mut",
            ArgKind::BoxObj => "box_obj",
        }
    }
    /// the data type carried by a plain-data argument
    pub fn data_ty(&self) -> Option<DTy> {
        match self {
            ArgKind::Val(t) | ArgKind::Ref(t) => Some(t.clone()),
            ArgKind::StrRef => Some(DTy::Str),
            ArgKind::Slice(t) => Some(DTy::Vec(Box::new(t.clone()))),
            _ => None,
        }
    }
}

#[derive(Clone, Debug, PartialEq, Serialize, Deserialize)]
pub enum RetKind {
    Unit,
    Val(DTy),
    Res(DTy, DTy),
    /// `Box<dyn Cb>`
    BoxObj,
    /// `Box<dyn Fn(..) -> R>`
    BoxFn(FnSig),
    /// `Result<Box<dyn Fn(..) -> R>, ()>`
    ResBoxFn(FnSig),
    /// `Pin<Box<dyn Future<Output = T>>>`
    Future(DTy),
}

impl RetKind {
    pub fn label(&self) -> &'static str {
        match self {
            RetKind::Unit => "unit",
            RetKind::Val(_) => "val",
            RetKind::Res(_, _) => "result",
            RetKind::BoxObj => "box_obj",
            RetKind::BoxFn(_) => "box_fn",
            RetKind::ResBoxFn(_) => "result_box_fn",
            RetKind::Future(_) => "boxed_future",
        }
    }
    /// type of the DV scripted as "return value" of the implementation
    pub fn script_ty(&self) -> ScriptTy {
        match self {
            RetKind::Unit => ScriptTy::Data(DTy::Unit),
            RetKind::Val(t) | RetKind::Future(t) => ScriptTy::Data(t.clone()),
            RetKind::Res(a, b) => ScriptTy::Res(a.clone(), b.clone()),
            RetKind::BoxObj => ScriptTy::ObjId,
            RetKind::BoxFn(s) => ScriptTy::Data(s.ret.clone()),
            RetKind::ResBoxFn(s) => ScriptTy::Res(s.ret.clone(), DTy::Unit),
        }
    }
    /// is the returned value plain data observed by the caller as a DV
    pub fn is_data(&self) -> bool {
        matches!(self, RetKind::Unit | RetKind::Val(_) | RetKind::Res(_, _) | RetKind::Future(_))
    }
}

pub enum ScriptTy {
    Data(DTy),
    Res(DTy, DTy),
    ObjId,
}

#[derive(Clone, Debug, PartialEq, Serialize, Deserialize)]
pub struct Arg {
    pub name: String,
    pub kind: ArgKind,
}

#[derive(Clone, Debug, PartialEq, Serialize, Deserialize)]
pub struct Method {
    pub name: String,
    pub mut_self: bool,
    /// `async fn` under `#[async_trait]`
    pub is_async: bool,
    pub args: Vec<Arg>,
    pub ret: RetKind,
    /// generator class (for the statistics)
    pub class: String,
}

#[derive(Clone, Copy, Debug, PartialEq, Eq, Serialize, Deserialize)]
pub enum BreakKind {
    MethodRemoved,
    ArgCountChanged,
    ArgTypeChanged,
    RetTypeChanged,
    /// the signature of a closure argument loses its last parameter (or gains one if it had none)
    ClosureArgsChanged,
}

impl BreakKind {
    pub fn label(self) -> &'static str {
        match self {
            BreakKind::MethodRemoved => "method_removed",
            BreakKind::ArgCountChanged => "arg_count_changed",
            BreakKind::ArgTypeChanged => "arg_type_changed",
            BreakKind::RetTypeChanged => "ret_type_changed",
            BreakKind::ClosureArgsChanged => "closure_args_changed",
        }
    }
}

#[derive(Clone, Debug, PartialEq, Serialize, Deserialize)]
pub enum RevLabel {
    Compat,
    /// derived from revision `base` (index into Family::revs) by one labelled breaking edit of
    /// method `method`
    Breaking { base: usize, kind: BreakKind, method: String },
}

#[derive(Clone, Debug, PartialEq, Serialize, Deserialize)]
pub struct Rev {
    /// module name inside the family module: v0, v1, .. / b0, b1, ..
    pub module: String,
    /// `#[savefile_abi_exportable(version = ..)]`
    pub version: u32,
    pub methods: Vec<Method>,
    pub label: RevLabel,
    /// compatible edits that produced this revision from its predecessor
    pub edits: Vec<String>,
}

impl Rev {
    pub fn is_breaking(&self) -> bool {
        matches!(self.label, RevLabel::Breaking { .. })
    }
    pub fn method(&self, name: &str) -> Option<(usize, &Method)> {
        self.methods.iter().enumerate().find(|(_, m)| m.name == name)
    }
}

#[derive(Clone, Debug, PartialEq, Serialize, Deserialize)]
pub struct Family {
    /// trait name (identical in all revisions), e.g. Fam7
    pub name: String,
    /// module name, e.g. fam7
    pub module: String,
    pub defs: Vec<DataDef>,
    /// compatible chain first (version == index), then breaking revisions
    pub revs: Vec<Rev>,
    pub async_trait: bool,
    /// `trait FamN: Send + Sync`
    pub send_sync: bool,
    /// `trait FamN: Send` (only meaningful when `send_sync` is false)
    #[serde(default)]
    pub send_only: bool,
    pub tags: Vec<String>,
}

impl Family {
    /// supertrait clause of the interface
    pub fn bounds(&self) -> &'static str {
        if self.send_sync {
            ": Send + Sync"
        } else if self.send_only {
            ": Send"
        } else {
            ""
        }
    }
    pub fn compat_revs(&self) -> Vec<usize> {
        (0..self.revs.len()).filter(|i| !self.revs[*i].is_breaking()).collect()
    }
    pub fn breaking_revs(&self) -> Vec<usize> {
        (0..self.revs.len()).filter(|i| self.revs[*i].is_breaking()).collect()
    }
    pub fn path(&self, rev: usize) -> String {
        format!("{}::{}", self.module, self.revs[rev].module)
    }
}

#[derive(Clone, Debug, PartialEq, Serialize, Deserialize)]
pub struct Batch {
    pub seed: u64,
    pub families: Vec<Family>,
    pub stats: BTreeMap<String, usize>,
}

pub fn u(p: Prim) -> DTy {
    DTy::Prim(p)
}
