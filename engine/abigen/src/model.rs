//! Reference model of the documented versioning rules for ABI data types
//! (savefile crate docs "Rules for managing versions", savefile-abi docs "Versioning"):
//! a field added in version N is absent from older wire formats and takes its declared default
//! when read from them; a removed field (`AbiRemoved<T>`) is written as `T::default()` for the
//! versions that still carry it; enum variants added in version N only exist from N on.
//! Independent of savefile: works on (IR, DV) only.

use crate::ir::*;
use std::collections::BTreeSet;
use vcore::dv::DV;

impl Family {
    pub fn rust_ty(&self, t: &DTy) -> String {
        match t {
            DTy::Prim(p) => p.rust().to_string(),
            DTy::Str => "String".into(),
            DTy::Unit => "()".into(),
            DTy::Opt(a) => format!("Option<{}>", self.rust_ty(a)),
            DTy::Vec(a) => format!("Vec<{}>", self.rust_ty(a)),
            DTy::Tuple(v) => {
                let inner: Vec<String> = v.iter().map(|x| self.rust_ty(x)).collect();
                if v.len() == 1 {
                    format!("({},)", inner[0])
                } else {
                    format!("({})", inner.join(", "))
                }
            }
            DTy::Boxed(a) => format!("Box<{}>", self.rust_ty(a)),
            DTy::Def(i) => self.defs[*i].name.clone(),
        }
    }

    /// `Default::default()` of a type as seen by the revision with version `k`
    pub fn type_default(&self, t: &DTy, k: u32) -> DV {
        match t {
            DTy::Prim(_) => DV::N(0),
            DTy::Str => DV::S(String::new()),
            DTy::Unit => DV::unit(),
            DTy::Opt(_) => DV::none(),
            DTy::Vec(_) => DV::L(vec![]),
            DTy::Tuple(v) => DV::L(v.iter().map(|x| self.type_default(x, k)).collect()),
            DTy::Boxed(a) => self.type_default(a, k),
            DTy::Def(i) => match &self.defs[*i].kind {
                // the emitted `impl Default` uses Default::default() for every live field
                DKind::Struct(fields) => {
                    DV::L(fields.iter().filter(|f| f.live_at(k)).map(|f| self.type_default(&f.ty, k)).collect())
                }
                // first variant (always a unit variant present from version 0)
                DKind::Enum(_) => DV::V(0, vec![]),
            },
        }
    }

    /// value a field of a revision with version `k` takes when it is absent from the wire
    pub fn field_default(&self, f: &DField, k: u32) -> DV {
        match &f.default {
            DefaultKind::Trait => self.type_default(&f.ty, k),
            DefaultKind::Val(_) => f.default_dv.clone().expect("default_dv"),
        }
    }

    /// The value a peer built at version `to` observes when a peer built at version `from`
    /// transmits `x`: `upgrade(downgrade(x, from -> m), m -> to)` with `m = min(from, to)`.
    pub fn convert(&self, t: &DTy, x: &DV, from: u32, to: u32) -> DV {
        let m = from.min(to);
        match (t, x) {
            (DTy::Prim(_), _) | (DTy::Str, _) | (DTy::Unit, _) => x.clone(),
            (DTy::Opt(a), DV::V(i, xs)) => DV::V(*i, xs.iter().map(|y| self.convert(a, y, from, to)).collect()),
            (DTy::Vec(a), DV::L(xs)) => DV::L(xs.iter().map(|y| self.convert(a, y, from, to)).collect()),
            (DTy::Tuple(ts), DV::L(xs)) => DV::L(ts.iter().zip(xs).map(|(t, y)| self.convert(t, y, from, to)).collect()),
            (DTy::Boxed(a), _) => self.convert(a, x, from, to),
            (DTy::Def(i), _) => match (&self.defs[*i].kind, x) {
                (DKind::Struct(fields), DV::L(xs)) => {
                    let mut src = fields.iter().filter(|f| f.live_at(from)).zip(xs.iter());
                    let mut have: Vec<(&DField, &DV)> = vec![];
                    for p in &mut src {
                        have.push(p);
                    }
                    let mut out = vec![];
                    for f in fields.iter().filter(|f| f.live_at(to)) {
                        if f.on_wire(m) {
                            if let Some((_, v)) = have.iter().find(|(g, _)| g.name == f.name) {
                                out.push(self.convert(&f.ty, v, from, to));
                            } else {
                                // the sender no longer has the field: AbiRemoved<T> writes T::default()
                                out.push(self.type_default(&f.ty, to));
                            }
                        } else {
                            out.push(self.field_default(f, to));
                        }
                    }
                    DV::L(out)
                }
                (DKind::Enum(vars), DV::V(vi, xs)) => {
                    let v = &vars[*vi as usize];
                    assert!(v.added <= m, "model: variant {} does not exist at version {}", v.name, m);
                    DV::V(*vi, v.fields.iter().zip(xs).map(|(t, y)| self.convert(t, y, from, to)).collect())
                }
                _ => panic!("model: shape mismatch for def {}: {:?}", self.defs[*i].name, x),
            },
            _ => panic!("model: shape mismatch {:?} / {:?}", t, x),
        }
    }

    pub fn convert_res(&self, a: &DTy, b: &DTy, x: &DV, from: u32, to: u32) -> DV {
        let (i, xs) = x.v();
        let t = if i == 1 { a } else { b };
        DV::V(i, vec![self.convert(t, &xs[0], from, to)])
    }

    /// documented edits that change the shape of `t` between versions a and b
    pub fn edits_between(&self, t: &DTy, a: u32, b: u32) -> BTreeSet<&'static str> {
        let (lo, hi) = (a.min(b), a.max(b));
        let mut out = BTreeSet::new();
        self.edits_rec(t, lo, hi, &mut out);
        out
    }
    fn edits_rec(&self, t: &DTy, lo: u32, hi: u32, out: &mut BTreeSet<&'static str>) {
        match t {
            DTy::Prim(_) | DTy::Str | DTy::Unit => {}
            DTy::Opt(a) | DTy::Vec(a) | DTy::Boxed(a) => self.edits_rec(a, lo, hi, out),
            DTy::Tuple(v) => v.iter().for_each(|x| self.edits_rec(x, lo, hi, out)),
            DTy::Def(i) => match &self.defs[*i].kind {
                DKind::Struct(fields) => {
                    for f in fields {
                        if f.added > lo && f.added <= hi {
                            out.insert("field_added");
                        }
                        if let Some(r) = f.removed_at {
                            if r > lo && r <= hi && f.added <= lo {
                                out.insert("field_removed");
                            }
                        }
                        if f.added <= hi {
                            self.edits_rec(&f.ty, lo, hi, out);
                        }
                    }
                }
                DKind::Enum(vars) => {
                    for v in vars {
                        if v.added > lo && v.added <= hi {
                            out.insert("variant_added");
                        }
                        if v.added <= hi {
                            v.fields.iter().for_each(|x| self.edits_rec(x, lo, hi, out));
                        }
                    }
                }
            },
        }
    }

    /// Does the wire form / in-memory shape of the type differ between the two versions in a
    /// way that matters for the *values* (fields added or removed; variant additions do not
    /// change retained values)
    pub fn shape_differs(&self, t: &DTy, a: u32, b: u32) -> bool {
        let e = self.edits_between(t, a, b);
        e.contains("field_added") || e.contains("field_removed")
    }

    /// Canonical structural description of a type's wire form at data version `v`.
    /// Two types with equal descriptions are interchangeable on the wire at `v`.
    pub fn wire_sig(&self, t: &DTy, v: u32) -> String {
        match t {
            DTy::Prim(p) => p.rust().to_string(),
            DTy::Str => "String".into(),
            DTy::Unit => "()".into(),
            DTy::Opt(a) => format!("Option<{}>", self.wire_sig(a, v)),
            DTy::Vec(a) => format!("Vec<{}>", self.wire_sig(a, v)),
            DTy::Tuple(ts) => format!("({})", ts.iter().map(|x| self.wire_sig(x, v)).collect::<Vec<_>>().join(",")),
            DTy::Boxed(a) => self.wire_sig(a, v),
            DTy::Def(i) => match &self.defs[*i].kind {
                DKind::Struct(fields) => format!(
                    "struct{{{}}}",
                    fields.iter().filter(|f| f.on_wire(v)).map(|f| self.wire_sig(&f.ty, v)).collect::<Vec<_>>().join(",")
                ),
                DKind::Enum(vars) => format!(
                    "enum{{{}}}",
                    vars.iter()
                        .filter(|x| x.added <= v)
                        .map(|x| format!("({})", x.fields.iter().map(|t| self.wire_sig(t, v)).collect::<Vec<_>>().join(",")))
                        .collect::<Vec<_>>()
                        .join("|")
                ),
            },
        }
    }

    fn fnsig_sig(&self, s: &FnSig, v: u32) -> String {
        format!(
            "fn({})->{}",
            s.args.iter().map(|a| format!("{}{}", if a.by_ref { "&" } else { "" }, self.wire_sig(&a.ty, v))).collect::<Vec<_>>().join(","),
            self.wire_sig(&s.ret, v)
        )
    }

    pub fn arg_sig(&self, a: &ArgKind, v: u32) -> String {
        match a {
            ArgKind::Val(t) => self.wire_sig(t, v),
            ArgKind::Ref(t) => format!("&{}", self.wire_sig(t, v)),
            ArgKind::StrRef => "&str".into(),
            ArgKind::Slice(t) => format!("&[{}]", self.wire_sig(t, v)),
            ArgKind::DynFn(s) => format!("&dyn {}", self.fnsig_sig(s, v)),
            ArgKind::DynFnMut(s) => format!("&mut dyn mut {}", self.fnsig_sig(s, v)),
            ArgKind::BoxFn { sig, send_sync } => format!("Box<dyn {}{}>", self.fnsig_sig(sig, v), if *send_sync { "+Send+Sync" } else { "" }),
            ArgKind::DynObj => "&dyn Cb".into(),
            ArgKind::DynObjMut => "&mut dyn Cb".into(),
            ArgKind::BoxObj => "Box<dyn Cb>".into(),
        }
    }

    pub fn ret_sig(&self, r: &RetKind, v: u32) -> String {
        match r {
            RetKind::Unit => "()".into(),
            RetKind::Val(t) => self.wire_sig(t, v),
            RetKind::Res(a, b) => format!("Result<{},{}>", self.wire_sig(a, v), self.wire_sig(b, v)),
            RetKind::BoxObj => "Box<dyn Cb>".into(),
            RetKind::BoxFn(s) => format!("Box<dyn {}>", self.fnsig_sig(s, v)),
            RetKind::ResBoxFn(s) => format!("Result<Box<dyn {}>,()>", self.fnsig_sig(s, v)),
            RetKind::Future(t) => format!("Future<{}>", self.wire_sig(t, v)),
        }
    }

    /// The definition of the interface of revision `rev` at data version `v`, as the list of
    /// (method name, async flag, argument signatures, return signature): what the compatibility
    /// ledger records per version.
    pub fn definition_at(&self, rev: usize, v: u32) -> Vec<MethodSig> {
        self.revs[rev]
            .methods
            .iter()
            .map(|m| MethodSig {
                name: m.name.clone(),
                is_async: m.is_async,
                args: m.args.iter().map(|a| self.arg_sig(&a.kind, v)).collect(),
                ret: self.ret_sig(&m.ret, v),
            })
            .collect()
    }
}

#[derive(Clone, Debug, PartialEq, Eq, serde::Serialize, serde::Deserialize)]
pub struct MethodSig {
    pub name: String,
    pub is_async: bool,
    pub args: Vec<String>,
    pub ret: String,
}

/// Is `new` backward compatible with the recorded definition `old` (property C15: new methods
/// are fine; a removed method, a changed argument count, a changed argument or return type are
/// not). Returns the first reason for incompatibility.
pub fn backward_compatible(new: &[MethodSig], old: &[MethodSig]) -> Result<(), String> {
    for o in old {
        let Some(n) = new.iter().find(|n| n.name == o.name) else {
            return Err(format!("method {} removed", o.name));
        };
        if n.is_async != o.is_async {
            return Err(format!("method {} changed asyncness", o.name));
        }
        if n.args.len() != o.args.len() {
            return Err(format!("method {}: argument count {} -> {}", o.name, o.args.len(), n.args.len()));
        }
        for (k, (a, b)) in n.args.iter().zip(o.args.iter()).enumerate() {
            if a != b {
                return Err(format!("method {}: argument {} type {} -> {}", o.name, k, b, a));
            }
        }
        if n.ret != o.ret {
            return Err(format!("method {}: return type {} -> {}", o.name, o.ret, n.ret));
        }
    }
    Ok(())
}

impl Family {
    /// number of bytes of the documented serialized form of a value (used only to classify
    /// calls by how they fill the 64-byte inline argument buffer)
    pub fn wire_len(&self, t: &DTy, x: &DV, v: u32) -> usize {
        match (t, x) {
            (DTy::Prim(p), _) => p.wire_size(),
            (DTy::Str, DV::S(s)) => 8 + s.len(),
            (DTy::Unit, _) => 0,
            (DTy::Opt(a), DV::V(_, xs)) => 1 + xs.iter().map(|y| self.wire_len(a, y, v)).sum::<usize>(),
            (DTy::Vec(a), DV::L(xs)) => 8 + xs.iter().map(|y| self.wire_len(a, y, v)).sum::<usize>(),
            (DTy::Tuple(ts), DV::L(xs)) => ts.iter().zip(xs).map(|(t, y)| self.wire_len(t, y, v)).sum(),
            (DTy::Boxed(a), _) => self.wire_len(a, x, v),
            (DTy::Def(i), _) => match (&self.defs[*i].kind, x) {
                (DKind::Struct(fields), DV::L(xs)) => fields.iter().filter(|f| f.live_at(v)).zip(xs).map(|(f, y)| self.wire_len(&f.ty, y, v)).sum(),
                (DKind::Enum(vars), DV::V(vi, xs)) => 1 + vars[*vi as usize].fields.iter().zip(xs).map(|(t, y)| self.wire_len(t, y, v)).sum::<usize>(),
                _ => 0,
            },
            _ => 0,
        }
    }
}
