//! proptest strategies for values and call specs, built at run time from the IR.
//! All randomness of values / call programs comes from proptest's RNG.

use crate::ir::*;
use crate::script::*;
use proptest::prelude::*;
use proptest::strategy::BoxedStrategy;
use std::sync::Arc;
use vcore::dv::DV;

fn prim(p: Prim) -> BoxedStrategy<DV> {
    let mask = p.mask();
    match p {
        Prim::Bool => prop_oneof![Just(DV::N(0)), Just(DV::N(1))].boxed(),
        Prim::Char => prop_oneof![
            4 => (0x20u32..0x7f).prop_map(|x| DV::N(x as u128)),
            2 => any::<char>().prop_map(|c| DV::N(c as u32 as u128)),
            1 => prop_oneof![Just(0u32), Just(0xD7FF), Just(0xE000), Just(0x10FFFF)].prop_map(|x| DV::N(x as u128)),
        ]
        .boxed(),
        Prim::F32 => any::<u32>().prop_map(|x| DV::N(x as u128)).boxed(),
        Prim::F64 => prop_oneof![
            3 => any::<u64>().prop_map(|x| DV::N(x as u128)),
            2 => any::<f64>().prop_map(|x| DV::N(x.to_bits() as u128)),
            1 => prop_oneof![Just(0u64), Just(0x8000_0000_0000_0000), Just(0x7ff8_0000_0000_0000), Just(u64::MAX)].prop_map(|x| DV::N(x as u128)),
        ]
        .boxed(),
        _ => {
            let bits = p.bits();
            let signed_min = 1u128 << (bits - 1);
            prop_oneof![
                4 => any::<u128>().prop_map(move |x| DV::N(x & mask)),
                3 => (0u128..300).prop_map(move |x| DV::N(x & mask)),
                2 => prop_oneof![Just(0u128), Just(1u128), Just(mask), Just(mask - 1), Just(signed_min), Just(signed_min - 1)].prop_map(DV::N),
            ]
            .boxed()
        }
    }
}

/// strings: empty, short, lengths straddling the 64-byte inline argument buffer (the buffer
/// also holds a 4-byte version and an 8-byte length prefix), long, and non-ASCII
fn string() -> BoxedStrategy<DV> {
    let ascii = |r: std::ops::RangeInclusive<usize>| proptest::collection::vec(0x20u8..0x7f, r).prop_map(|v| DV::S(String::from_utf8(v).unwrap()));
    prop_oneof![
        2 => Just(DV::S(String::new())),
        5 => ascii(1..=12),
        3 => ascii(40..=70),
        1 => ascii(120..=300),
        2 => proptest::collection::vec(any::<char>(), 0..=20).prop_map(|v| DV::S(v.into_iter().collect())),
    ]
    .boxed()
}

fn tuple_strategy(fs: Vec<BoxedStrategy<DV>>) -> BoxedStrategy<Vec<DV>> {
    let mut acc: BoxedStrategy<Vec<DV>> = Just(vec![]).boxed();
    for f in fs {
        acc = (acc, f)
            .prop_map(|(mut v, x)| {
                v.push(x);
                v
            })
            .boxed();
    }
    acc
}

fn seq(elem: BoxedStrategy<DV>, elem_size: usize, depth: usize) -> BoxedStrategy<DV> {
    if depth > 0 {
        return proptest::collection::vec(elem, 0..=3).prop_map(DV::L).boxed();
    }
    let c = (64 / elem_size.max(1)).max(2);
    prop_oneof![
        2 => Just(DV::L(vec![])),
        5 => proptest::collection::vec(elem.clone(), 1..=6).prop_map(DV::L),
        3 => proptest::collection::vec(elem.clone(), (c.saturating_sub(3)).max(1)..=(c + 2)).prop_map(DV::L),
        1 => proptest::collection::vec(elem, (2 * c)..=(2 * c + 8)).prop_map(DV::L),
    ]
    .boxed()
}

/// Values of type `t` as seen by the revision with version `k`, using only enum variants that
/// exist at data version `variants_at` (a variant unknown to the receiver cannot be transmitted:
/// documented, and asserted by the repo's own test `..._uses_enum_that_callee_doesnt_have`).
pub fn value(fam: &Arc<Family>, t: &DTy, k: u32, variants_at: u32, depth: usize) -> BoxedStrategy<DV> {
    match t {
        DTy::Prim(p) => prim(*p),
        DTy::Str => string(),
        DTy::Unit => Just(DV::unit()).boxed(),
        DTy::Opt(a) => prop_oneof![1 => Just(DV::none()), 3 => value(fam, a, k, variants_at, depth + 1).prop_map(DV::some)].boxed(),
        DTy::Vec(a) => {
            let sz = match &**a {
                DTy::Prim(p) => p.wire_size(),
                _ => 16,
            };
            seq(value(fam, a, k, variants_at, depth + 1), sz, depth)
        }
        DTy::Tuple(ts) => tuple_strategy(ts.iter().map(|x| value(fam, x, k, variants_at, depth + 1)).collect()).prop_map(DV::L).boxed(),
        DTy::Boxed(a) => value(fam, a, k, variants_at, depth),
        DTy::Def(i) => match &fam.defs[*i].kind {
            DKind::Struct(fields) => {
                tuple_strategy(fields.iter().filter(|f| f.live_at(k)).map(|f| value(fam, &f.ty, k, variants_at, depth + 1)).collect()).prop_map(DV::L).boxed()
            }
            DKind::Enum(vars) => {
                let mut alts = vec![];
                for (vi, v) in vars.iter().enumerate() {
                    if v.added > variants_at || v.added > k {
                        continue;
                    }
                    let vi = vi as u32;
                    alts.push(tuple_strategy(v.fields.iter().map(|x| value(fam, x, k, variants_at, depth + 1)).collect()).prop_map(move |xs| DV::V(vi, xs)).boxed());
                }
                proptest::strategy::Union::new(alts).boxed()
            }
        },
    }
}

fn vec_of(s: BoxedStrategy<DV>, r: std::ops::RangeInclusive<usize>) -> BoxedStrategy<Vec<DV>> {
    proptest::collection::vec(s, r).boxed()
}

fn sig_args(fam: &Arc<Family>, s: &FnSig, k: u32, vat: u32) -> BoxedStrategy<Vec<DV>> {
    tuple_strategy(s.args.iter().map(|a| value(fam, &a.ty, k, vat, 1)).collect())
}

fn panic_spec(rate: u32) -> BoxedStrategy<Option<PanicSpec>> {
    if rate == 0 {
        return Just(None).boxed();
    }
    prop_oneof![
        (100 - rate) => Just(None),
        rate => (prop_oneof![Just(PanicKind::Literal), Just(PanicKind::Formatted), Just(PanicKind::NonString)], 0usize..4, 0u32..1000)
            .prop_map(|(kind, word, code)| Some(PanicSpec { kind, word, code })),
    ]
    .boxed()
}

#[derive(Clone, Copy, Debug)]
pub struct CallOpts {
    /// percentage of calls whose implementation panics
    pub panic_rate: u32,
    /// force this panic kind on every call
    pub force_panic: Option<PanicKind>,
}

/// A call of `method` (by name) made by a caller built at revision `caller` against an
/// implementation built at revision `imp` (indices into `fam.revs`).
/// Values the caller creates (arguments, closure return values) have the caller's shape; values
/// the implementation creates (return value, closure arguments) have the implementation's.
pub fn call_spec(fam: &Arc<Family>, caller: usize, imp: usize, method: &str, o: CallOpts) -> BoxedStrategy<CallSpec> {
    let kc = fam.revs[caller].version;
    let ki = fam.revs[imp].version;
    let vat = kc.min(ki);
    let (_, mc) = fam.revs[caller].method(method).expect("method in caller revision");
    // when the implementation lacks the method, its side of the script is never consulted
    let mi = fam.revs[imp].method(method).map(|x| x.1).unwrap_or(mc);
    let ki = if fam.revs[imp].method(method).is_some() { ki } else { kc };
    let args: Vec<BoxedStrategy<DV>> = mc
        .args
        .iter()
        .map(|a| match a.kind.data_ty() {
            Some(t) => value(fam, &t, kc, vat, 0),
            None => Just(DV::unit()).boxed(),
        })
        .collect();
    let args = tuple_strategy(args);
    // what the implementation does
    let ret: BoxedStrategy<DV> = match mi.ret.script_ty() {
        ScriptTy::Data(t) => value(fam, &t, ki, vat, 0),
        ScriptTy::Res(a, b) => prop_oneof![
            3 => value(fam, &a, ki, vat, 0).prop_map(|x| DV::V(1, vec![x])),
            2 => value(fam, &b, ki, vat, 0).prop_map(|x| DV::V(0, vec![x])),
        ]
        .boxed(),
        ScriptTy::ObjId => (1u32..1000).prop_map(|x| DV::N(x as u128)).boxed(),
    };
    let mut plans: Vec<BoxedStrategy<Vec<Vec<DV>>>> = vec![];
    for a in &mi.args {
        let p: BoxedStrategy<Vec<Vec<DV>>> = match &a.kind {
            ArgKind::DynFn(s) | ArgKind::DynFnMut(s) | ArgKind::BoxFn { sig: s, .. } => proptest::collection::vec(sig_args(fam, s, ki, vat), 0..=3).boxed(),
            ArgKind::DynObj | ArgKind::BoxObj => proptest::collection::vec(prim(Prim::U32).prop_map(|x| vec![x]), 0..=3).boxed(),
            ArgKind::DynObjMut => proptest::collection::vec(string().prop_map(|x| vec![x]), 0..=3).boxed(),
            _ => Just(vec![]).boxed(),
        };
        plans.push(p);
    }
    let plans = {
        let mut acc: BoxedStrategy<Vec<Vec<Vec<DV>>>> = Just(vec![]).boxed();
        for p in plans {
            acc = (acc, p)
                .prop_map(|(mut v, x)| {
                    v.push(x);
                    v
                })
                .boxed();
        }
        acc
    };
    let panic = match o.force_panic {
        Some(kind) => (0usize..4, 0u32..1000).prop_map(move |(word, code)| Some(PanicSpec { kind, word, code })).boxed(),
        None => panic_spec(o.panic_rate),
    };
    // what the caller's closures / objects do
    let mut crets: Vec<BoxedStrategy<Vec<DV>>> = vec![];
    for a in &mc.args {
        crets.push(match a.kind.sig() {
            Some(s) => vec_of(value(fam, &s.ret, kc, vat, 1), 1..=2),
            None => Just(vec![]).boxed(),
        });
    }
    let crets = {
        let mut acc: BoxedStrategy<Vec<Vec<DV>>> = Just(vec![]).boxed();
        for p in crets {
            acc = (acc, p)
                .prop_map(|(mut v, x)| {
                    v.push(x);
                    v
                })
                .boxed();
        }
        acc
    };
    let nargs = mc.args.len();
    let obj_ids = proptest::collection::vec(1u32..1000, nargs..=nargs);
    let ret_calls: BoxedStrategy<Vec<Vec<DV>>> = match &mc.ret {
        RetKind::BoxObj => proptest::collection::vec(prim(Prim::U32).prop_map(|x| vec![x]), 0..=3).boxed(),
        RetKind::BoxFn(s) | RetKind::ResBoxFn(s) => proptest::collection::vec(sig_args(fam, s, kc, vat), 0..=3).boxed(),
        _ => Just(vec![]).boxed(),
    };
    let name = method.to_string();
    (args, ret, plans, panic, crets, obj_ids, ret_calls)
        .prop_map(move |(args, ret, plans, panic, closure_rets, obj_ids, ret_calls)| CallSpec {
            method: name.clone(),
            args,
            imp: ImplScript { ret, panic, plans, perturb: 0 },
            caller: CallerScript { closure_rets, obj_ids, ret_calls },
        })
        .boxed()
}
