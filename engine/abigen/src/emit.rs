//! Rust source emitter for a batch of interface families: data definitions per revision
//! (`#[derive(Savefile)]` + `Dyn` glue), the exported trait, a recording implementation and a
//! type-erased driver.

use crate::ir::*;
use std::fmt::Write;

fn versions_attr(f: &DField) -> String {
    match (f.added, f.removed_at) {
        (0, None) => String::new(),
        (a, None) => format!("#[savefile_versions = \"{}..\"] ", a),
        (a, Some(r)) => format!("#[savefile_versions = \"{}..{}\"] ", a, r - 1),
    }
}

fn emit_def(fam: &Family, d: &DataDef, k: u32, out: &mut String) {
    match &d.kind {
        DKind::Struct(fields) => {
            writeln!(out, "    #[derive(Savefile)]{}\n    pub struct {} {{", if d.repr_u8 { "\n    #[repr(C)]" } else { "" }, d.name).unwrap();
            for f in fields.iter().filter(|f| f.emitted_at(k)) {
                if f.live_at(k) {
                    // a live field of this revision has an open range
                    let va = if f.added > 0 { format!("#[savefile_versions = \"{}..\"] ", f.added) } else { String::new() };
                    let dv = match &f.default {
                        DefaultKind::Val(t) => format!("#[savefile_default_val = \"{}\"] ", t),
                        DefaultKind::Trait => String::new(),
                    };
                    writeln!(out, "        {}{}pub {}: {},", va, dv, f.name, fam.rust_ty(&f.ty)).unwrap();
                } else {
                    writeln!(out, "        {}pub {}: AbiRemoved<{}>,", versions_attr(f), f.name, fam.rust_ty(&f.ty)).unwrap();
                }
            }
            writeln!(out, "    }}").unwrap();
            // Default: Default::default() per live field
            writeln!(out, "    impl Default for {} {{ fn default() -> Self {{ {} {{", d.name, d.name).unwrap();
            for f in fields.iter().filter(|f| f.emitted_at(k)) {
                if f.live_at(k) {
                    writeln!(out, "        {}: Default::default(),", f.name).unwrap();
                } else {
                    writeln!(out, "        {}: AbiRemoved::new(),", f.name).unwrap();
                }
            }
            writeln!(out, "    }} }} }}").unwrap();
            writeln!(out, "    impl Dyn for {} {{", d.name).unwrap();
            let live: Vec<&DField> = fields.iter().filter(|f| f.live_at(k)).collect();
            writeln!(
                out,
                "        fn to_dyn(&self) -> DV {{ DV::L(vec![{}]) }}",
                live.iter().map(|f| format!("self.{}.to_dyn()", f.name)).collect::<Vec<_>>().join(", ")
            )
            .unwrap();
            writeln!(out, "        fn from_dyn(d: &DV) -> Self {{ let l = d.l(); {} {{", d.name).unwrap();
            let mut li = 0;
            for f in fields.iter().filter(|f| f.emitted_at(k)) {
                if f.live_at(k) {
                    writeln!(out, "            {}: Dyn::from_dyn(&l[{}]),", f.name, li).unwrap();
                    li += 1;
                } else {
                    writeln!(out, "            {}: AbiRemoved::new(),", f.name).unwrap();
                }
            }
            writeln!(out, "        }} }}\n    }}").unwrap();
        }
        DKind::Enum(vars) => {
            writeln!(out, "    #[derive(Savefile)]").unwrap();
            if d.repr_u8 {
                writeln!(out, "    #[repr(u8)]").unwrap();
            }
            writeln!(out, "    pub enum {} {{", d.name).unwrap();
            let present: Vec<(usize, &DVariant)> = vars.iter().enumerate().filter(|(_, v)| v.added <= k).collect();
            for (_, v) in &present {
                let va = if v.added > 0 { format!("#[savefile_versions = \"{}..\"] ", v.added) } else { String::new() };
                if v.fields.is_empty() {
                    writeln!(out, "        {}{},", va, v.name).unwrap();
                } else {
                    writeln!(out, "        {}{}({}),", va, v.name, v.fields.iter().map(|t| fam.rust_ty(t)).collect::<Vec<_>>().join(", ")).unwrap();
                }
            }
            writeln!(out, "    }}").unwrap();
            writeln!(out, "    impl Default for {} {{ fn default() -> Self {{ {}::{} }} }}", d.name, d.name, vars[0].name).unwrap();
            writeln!(out, "    impl Dyn for {} {{\n        fn to_dyn(&self) -> DV {{ match self {{", d.name).unwrap();
            for (vi, v) in &present {
                if v.fields.is_empty() {
                    writeln!(out, "            {}::{} => DV::V({}, vec![]),", d.name, v.name, vi).unwrap();
                } else {
                    let xs: Vec<String> = (0..v.fields.len()).map(|i| format!("x{}", i)).collect();
                    writeln!(
                        out,
                        "            {}::{}({}) => DV::V({}, vec![{}]),",
                        d.name,
                        v.name,
                        xs.join(", "),
                        vi,
                        xs.iter().map(|x| format!("{}.to_dyn()", x)).collect::<Vec<_>>().join(", ")
                    )
                    .unwrap();
                }
            }
            writeln!(out, "        }} }}\n        fn from_dyn(d: &DV) -> Self {{ let (i, l) = d.v(); match i {{").unwrap();
            for (vi, v) in &present {
                if v.fields.is_empty() {
                    writeln!(out, "            {} => {}::{},", vi, d.name, v.name).unwrap();
                } else {
                    writeln!(
                        out,
                        "            {} => {}::{}({}),",
                        vi,
                        d.name,
                        v.name,
                        (0..v.fields.len()).map(|i| format!("Dyn::from_dyn(&l[{}])", i)).collect::<Vec<_>>().join(", ")
                    )
                    .unwrap();
                }
            }
            writeln!(out, "            _ => panic!(\"harness: variant {{}} of {} does not exist in this revision\", i),", d.name).unwrap();
            writeln!(out, "        }} }}\n    }}").unwrap();
        }
    }
}

fn fn_params(fam: &Family, s: &FnSig) -> String {
    s.args.iter().map(|a| format!("{}{}", if a.by_ref { "&" } else { "" }, fam.rust_ty(&a.ty))).collect::<Vec<_>>().join(", ")
}
fn fn_ret(fam: &Family, s: &FnSig) -> String {
    if s.ret == DTy::Unit {
        String::new()
    } else {
        format!(" -> {}", fam.rust_ty(&s.ret))
    }
}
fn fn_ty(fam: &Family, s: &FnSig, kind: &str) -> String {
    format!("dyn {}({}){}", kind, fn_params(fam, s), fn_ret(fam, s))
}

pub fn arg_ty(fam: &Family, a: &ArgKind) -> String {
    match a {
        ArgKind::Val(t) => fam.rust_ty(t),
        ArgKind::Ref(t) => format!("&{}", fam.rust_ty(t)),
        ArgKind::StrRef => "&str".into(),
        ArgKind::Slice(t) => format!("&[{}]", fam.rust_ty(t)),
        ArgKind::DynFn(s) => format!("&{}", fn_ty(fam, s, "Fn")),
        ArgKind::DynFnMut(s) => format!("&mut {}", fn_ty(fam, s, "FnMut")),
        ArgKind::BoxFn { sig, send_sync } => format!("Box<{}{}>", fn_ty(fam, sig, "Fn"), if *send_sync { " + Send + Sync" } else { "" }),
        ArgKind::DynObj => "&dyn Cb".into(),
        ArgKind::DynObjMut => "&mut dyn Cb".into(),
        ArgKind::BoxObj => "Box<dyn Cb>".into(),
    }
}

pub fn ret_ty(fam: &Family, r: &RetKind) -> String {
    match r {
        RetKind::Unit => String::new(),
        RetKind::Val(t) => format!(" -> {}", fam.rust_ty(t)),
        RetKind::Res(a, b) => format!(" -> Result<{}, {}>", fam.rust_ty(a), fam.rust_ty(b)),
        RetKind::BoxObj => " -> Box<dyn Cb>".into(),
        RetKind::BoxFn(s) => format!(" -> Box<{}>", fn_ty(fam, s, "Fn")),
        RetKind::ResBoxFn(s) => format!(" -> Result<Box<{}>, ()>", fn_ty(fam, s, "Fn")),
        RetKind::Future(t) => format!(" -> Pin<Box<dyn Future<Output = {}>>>", fam.rust_ty(t)),
    }
}

pub fn method_sig(fam: &Family, m: &Method) -> String {
    let recv = if m.mut_self { "&mut self" } else { "&self" };
    let mut params = vec![recv.to_string()];
    for a in &m.args {
        params.push(format!("{}: {}", a.name, arg_ty(fam, &a.kind)));
    }
    format!("{}fn {}({}){}", if m.is_async { "async " } else { "" }, m.name, params.join(", "), ret_ty(fam, &m.ret))
}

/// closure parameter list with types: `x0: T0, x1: &T1`
fn closure_params(fam: &Family, s: &FnSig) -> String {
    s.args.iter().enumerate().map(|(i, a)| format!("x{}: {}{}", i, if a.by_ref { "&" } else { "" }, fam.rust_ty(&a.ty))).collect::<Vec<_>>().join(", ")
}
fn closure_args_dyn(s: &FnSig) -> String {
    (0..s.args.len()).map(|i| format!("x{}.to_dyn()", i)).collect::<Vec<_>>().join(", ")
}
/// expression list calling a closure with values decoded from `c[..]`
fn closure_call_args(fam: &Family, s: &FnSig, src: &str) -> String {
    s.args
        .iter()
        .enumerate()
        .map(|(i, a)| format!("{}<{} as Dyn>::from_dyn(&{}[{}])", if a.by_ref { "&" } else { "" }, fam.rust_ty(&a.ty), src, i))
        .collect::<Vec<_>>()
        .join(", ")
}

fn emit_impl_method(fam: &Family, m: &Method, out: &mut String) {
    writeln!(out, "        {} {{", method_sig(fam, m)).unwrap();
    let logged: Vec<String> = m
        .args
        .iter()
        .map(|a| match &a.kind {
            ArgKind::Val(_) | ArgKind::Ref(_) => format!("{}.to_dyn()", a.name),
            ArgKind::StrRef => format!("DV::S({}.to_string())", a.name),
            ArgKind::Slice(_) => format!("slice_dyn({})", a.name),
            k => format!("DV::S(\"<{}>\".to_string())", k.label()),
        })
        .collect();
    writeln!(out, "            let sc = self.h.begin(\"{}\", {}, vec![{}]);", m.name, m.mut_self, logged.join(", ")).unwrap();
    if m.is_async {
        writeln!(out, "            YieldOnce::new().await;").unwrap();
    }
    for (i, a) in m.args.iter().enumerate() {
        let call = match &a.kind {
            ArgKind::DynFn(s) | ArgKind::DynFnMut(s) | ArgKind::BoxFn { sig: s, .. } => Some(format!("{}({})", a.name, closure_call_args(fam, s, "c"))),
            ArgKind::DynObj | ArgKind::BoxObj => Some(format!("{}.ping(<u32 as Dyn>::from_dyn(&c[0]))", a.name)),
            ArgKind::DynObjMut => Some(format!("{}.note(&<String as Dyn>::from_dyn(&c[0]))", a.name)),
            _ => None,
        };
        if let Some(call) = call {
            writeln!(out, "            for (n, c) in sc.plan({}).iter().enumerate() {{ let r = {}; self.h.cb_result({}, n, r.to_dyn()); }}", i, call, i).unwrap();
        }
    }
    writeln!(out, "            sc.maybe_panic();").unwrap();
    let boxed_fn = |s: &FnSig, rv: &str| {
        format!(
            "{{ let c = self.h.ctx().clone(); let tok = c.token(\"returned_closure\"); let rv = {}; Box::new(move |{}|{} {{ tok.touch(); c.ev(\"retfn.invoked\", &[], vec![{}]); <{} as Dyn>::from_dyn(&rv) }}) }}",
            rv,
            closure_params(fam, s),
            fn_ret(fam, s),
            closure_args_dyn(s),
            fam.rust_ty(&s.ret)
        )
    };
    match &m.ret {
        RetKind::Unit => {}
        RetKind::Val(t) => writeln!(out, "            <{} as Dyn>::from_dyn(&sc.ret)", fam.rust_ty(t)).unwrap(),
        RetKind::Res(a, b) => writeln!(out, "            <Result<{}, {}> as Dyn>::from_dyn(&sc.ret)", fam.rust_ty(a), fam.rust_ty(b)).unwrap(),
        RetKind::BoxObj => writeln!(out, "            Box::new(CbImpl::new(self.h.ctx(), sc.ret.n() as u32))").unwrap(),
        RetKind::BoxFn(s) => writeln!(out, "            {}", boxed_fn(s, "sc.ret.clone()")).unwrap(),
        RetKind::ResBoxFn(s) => writeln!(out, "            if sc.ret.v().0 == 1 {{ Ok({}) }} else {{ Err(()) }}", boxed_fn(s, "sc.ret.v().1[0].clone()")).unwrap(),
        RetKind::Future(t) => writeln!(
            out,
            "            {{ let v = <{} as Dyn>::from_dyn(&sc.ret); let c = self.h.ctx().clone(); let tok = c.token(\"future\"); Box::pin(async move {{ YieldOnce::new().await; tok.touch(); c.ev(\"future.ready\", &[], vec![]); v }}) }}",
            fam.rust_ty(t)
        )
        .unwrap(),
    }
    writeln!(out, "        }}").unwrap();
}

/// One arm of the driver's call dispatch.
fn emit_call_arm(fam: &Family, m: &Method, recv: &str, out: &mut String) {
    writeln!(out, "                \"{}\" => {{", m.name).unwrap();
    let mut pass = vec![];
    for (i, a) in m.args.iter().enumerate() {
        let n = &a.name;
        match &a.kind {
            ArgKind::Val(t) => {
                writeln!(out, "                    let {} = <{} as Dyn>::from_dyn(&args[{}]);", n, fam.rust_ty(t), i).unwrap();
                pass.push(n.clone());
            }
            ArgKind::Ref(t) => {
                writeln!(out, "                    let {} = <{} as Dyn>::from_dyn(&args[{}]);", n, fam.rust_ty(t), i).unwrap();
                pass.push(format!("&{}", n));
            }
            ArgKind::StrRef => {
                writeln!(out, "                    let {} = <String as Dyn>::from_dyn(&args[{}]);", n, i).unwrap();
                pass.push(format!("&{}", n));
            }
            ArgKind::Slice(t) => {
                writeln!(out, "                    let {} = <Vec<{}> as Dyn>::from_dyn(&args[{}]);", n, fam.rust_ty(t), i).unwrap();
                pass.push(format!("&{}", n));
            }
            ArgKind::DynFn(s) | ArgKind::DynFnMut(s) | ArgKind::BoxFn { sig: s, .. } => {
                let boxed = matches!(a.kind, ArgKind::BoxFn { .. });
                let mutable = matches!(a.kind, ArgKind::DynFnMut(_));
                let body = format!(
                    "{{ let c{i} = c.clone(); let r{i} = cs.closure_rets.get({i}).cloned().unwrap_or_default(); let n{i} = AtomicUsize::new(0); {tok} move |{params}|{ret} {{ {touch} let r = c{i}.closure_invoked({i}, n{i}.fetch_add(1, Ordering::Relaxed), vec![{dyns}], &r{i}); <{rty} as Dyn>::from_dyn(&r) }} }}",
                    i = i,
                    tok = if boxed { format!("let tok{} = c.token(\"boxed_closure_arg\");", i) } else { String::new() },
                    touch = if boxed { format!("tok{}.touch();", i) } else { String::new() },
                    params = closure_params(fam, s),
                    ret = fn_ret(fam, s),
                    dyns = closure_args_dyn(s),
                    rty = fam.rust_ty(&s.ret)
                );
                if boxed {
                    writeln!(out, "                    let {}: {} = Box::new({});", n, arg_ty(fam, &a.kind), body).unwrap();
                    pass.push(n.clone());
                } else if mutable {
                    writeln!(out, "                    let mut {} = {};", n, body).unwrap();
                    pass.push(format!("&mut {}", n));
                } else {
                    writeln!(out, "                    let {} = {};", n, body).unwrap();
                    pass.push(format!("&{}", n));
                }
            }
            ArgKind::DynObj => {
                writeln!(out, "                    let {} = CbImpl::new(&c, cs.obj_ids.get({}).copied().unwrap_or(0));", n, i).unwrap();
                pass.push(format!("&{}", n));
            }
            ArgKind::DynObjMut => {
                writeln!(out, "                    let mut {} = CbImpl::new(&c, cs.obj_ids.get({}).copied().unwrap_or(0));", n, i).unwrap();
                pass.push(format!("&mut {}", n));
            }
            ArgKind::BoxObj => {
                writeln!(out, "                    let {}: Box<dyn Cb> = Box::new(CbImpl::new(&c, cs.obj_ids.get({}).copied().unwrap_or(0)));", n, i).unwrap();
                pass.push(n.clone());
            }
        }
    }
    let call = format!("o.{}({})", m.name, pass.join(", "));
    let call = if m.is_async || matches!(m.ret, RetKind::Future(_)) { format!("block_on({})", call) } else { call };
    let fn_calls = |s: &FnSig, f: &str| {
        format!(
            "for (n, a) in cs.ret_calls.iter().enumerate() {{ let v = {}({}); cg.ev(\"caller.ret_closure.result\", &[n as u64], vec![v.to_dyn()]); }}",
            f,
            closure_call_args(fam, s, "a")
        )
    };
    let body = match &m.ret {
        RetKind::Unit => format!("{}; DV::unit()", call),
        RetKind::Val(_) | RetKind::Res(_, _) | RetKind::Future(_) => format!("let r = {}; r.to_dyn()", call),
        RetKind::BoxObj => format!(
            "let r = {}; for (n, a) in cs.ret_calls.iter().enumerate() {{ let v = r.ping(<u32 as Dyn>::from_dyn(&a[0])); cg.ev(\"caller.ret_obj.result\", &[n as u64], vec![v.to_dyn()]); }} drop(r); DV::S(\"<box_obj>\".to_string())",
            call
        ),
        RetKind::BoxFn(s) => format!("let r = {}; {} drop(r); DV::S(\"<box_fn>\".to_string())", call, fn_calls(s, "r")),
        RetKind::ResBoxFn(s) => format!(
            "let r = {}; match r {{ Ok(f) => {{ {} drop(f); DV::V(1, vec![DV::S(\"<box_fn>\".to_string())]) }} Err(()) => DV::V(0, vec![DV::unit()]) }}",
            call,
            fn_calls(s, "f")
        ),
    };
    writeln!(out, "                    let o = {}; let cg = c.clone();", recv).unwrap();
    writeln!(out, "                    Some(guarded(move || {{ {} }}))", body).unwrap();
    writeln!(out, "                }}").unwrap();
}

fn emit_rev(fam: &Family, ri: usize, out: &mut String) {
    let rev = &fam.revs[ri];
    let k = rev.version;
    let t = &fam.name;
    writeln!(out, "  pub mod {} {{", rev.module).unwrap();
    writeln!(out, "    use abirt::prelude::*;\n    use savefile_derive::{{savefile_abi_exportable, Savefile}};").unwrap();
    if fam.async_trait {
        writeln!(out, "    use async_trait::async_trait;").unwrap();
    }
    for d in &fam.defs {
        emit_def(fam, d, k, out);
    }
    // the interface
    if fam.async_trait {
        writeln!(out, "    #[async_trait]").unwrap();
    }
    writeln!(out, "    #[savefile_abi_exportable(version = {})]", k).unwrap();
    writeln!(out, "    pub trait {}{} {{", t, fam.bounds()).unwrap();
    for m in &rev.methods {
        writeln!(out, "        {};", method_sig(fam, m)).unwrap();
    }
    writeln!(out, "    }}").unwrap();
    // recording implementation
    writeln!(out, "    pub struct Impl {{ h: ImplHandle }}").unwrap();
    writeln!(out, "    impl Impl {{ pub fn new(ctx: &Arc<Ctx>) -> Impl {{ Impl {{ h: ImplHandle::new(ctx, \"{}\") }} }} }}", fam.path(ri)).unwrap();
    if fam.async_trait {
        writeln!(out, "    #[async_trait]").unwrap();
    }
    writeln!(out, "    impl {} for Impl {{", t).unwrap();
    for m in &rev.methods {
        emit_impl_method(fam, m, out);
    }
    writeln!(out, "    }}").unwrap();
    // driver
    writeln!(out, "    pub enum ConnK {{ D(Box<dyn {}>), A(AbiConnection<dyn {}>) }}", t, t).unwrap();
    writeln!(out, "    pub struct Conn {{ k: ConnK, c: Arc<Ctx> }}").unwrap();
    writeln!(out, "    impl Conn {{").unwrap();
    writeln!(out, "        fn obj(&mut self) -> &mut (dyn {} + 'static) {{ match &mut self.k {{ ConnK::D(b) => &mut **b, ConnK::A(a) => a }} }}", t).unwrap();
    writeln!(out, "        fn obj_ref(&self) -> &(dyn {} + 'static) {{ match &self.k {{ ConnK::D(b) => &**b, ConnK::A(a) => a }} }}", t).unwrap();
    writeln!(out, "    }}").unwrap();
    writeln!(out, "    impl abirt::Conn for Conn {{").unwrap();
    writeln!(out, "        fn call_ref(&self, spec: &CallSpec) -> Option<RetOut> {{").unwrap();
    writeln!(out, "            let c = self.c.clone(); let args = &spec.args; let cs = &spec.caller; c.set_script(&spec.imp);").unwrap();
    writeln!(out, "            let r = match spec.method.as_str() {{").unwrap();
    for m in rev.methods.iter().filter(|m| !m.mut_self) {
        emit_call_arm(fam, m, "self.obj_ref()", out);
    }
    writeln!(out, "                _ => None,\n            }};\n            c.clear_script();\n            r\n        }}").unwrap();
    writeln!(out, "        fn call(&mut self, spec: &CallSpec) -> RetOut {{").unwrap();
    writeln!(out, "            if let Some(r) = self.call_ref(spec) {{ return r; }}").unwrap();
    writeln!(out, "            let c = self.c.clone(); let args = &spec.args; let cs = &spec.caller; c.set_script(&spec.imp);").unwrap();
    writeln!(out, "            let r = match spec.method.as_str() {{").unwrap();
    for m in rev.methods.iter().filter(|m| m.mut_self) {
        emit_call_arm(fam, m, "self.obj()", out);
    }
    writeln!(out, "                _ => None,\n            }};\n            c.clear_script();").unwrap();
    writeln!(out, "            r.unwrap_or_else(|| RetOut::Panic(format!(\"harness: interface {} has no method {{}}\", spec.method)))\n        }}", fam.path(ri)).unwrap();
    writeln!(
        out,
        "        fn passable_by_ref(&self, method: &str, arg: usize) -> Option<bool> {{ match &self.k {{ ConnK::A(a) => abirt::guard_any(|| a.get_arg_passable_by_ref(method, arg)).ok(), _ => None }} }}"
    )
    .unwrap();
    writeln!(out, "    }}").unwrap();
    if fam.send_sync {
        writeln!(out, "    impl abirt::SharedConn for Conn {{}}").unwrap();
    }
    writeln!(out, "    fn mk(ctx: &Arc<Ctx>, mode: ConnMode) -> Result<Conn, String> {{").unwrap();
    writeln!(out, "        let r: Result<Result<ConnK, String>, String> = abirt::guard_any(|| Ok(match mode {{").unwrap();
    writeln!(out, "            ConnMode::Direct => ConnK::D(Box::new(Impl::new(ctx))),").unwrap();
    writeln!(
        out,
        "            ConnMode::Abi => ConnK::A(AbiConnection::from_boxed_trait(Box::new(Impl::new(ctx)) as Box<dyn {}>).map_err(|e| format!(\"{{:?}}\", e))?),",
        t
    )
    .unwrap();
    for (j, other) in fam.revs.iter().enumerate() {
        writeln!(
            out,
            "            ConnMode::AbiTo({j}) => ConnK::A(unsafe {{ AbiConnection::<dyn {t}>::from_boxed_trait_for_test(<dyn super::{m}::{t} as AbiExportable>::ABI_ENTRY, Box::new(super::{m}::Impl::new(ctx)) as Box<dyn super::{m}::{t}>) }}.map_err(|e| format!(\"{{:?}}\", e))?),",
            j = j,
            t = t,
            m = other.module
        )
        .unwrap();
    }
    writeln!(out, "            ConnMode::AbiTo(j) => return Err(format!(\"harness: no revision {{}}\", j)),").unwrap();
    writeln!(out, "        }}));").unwrap();
    writeln!(out, "        match r {{ Ok(Ok(k)) => Ok(Conn {{ k, c: ctx.clone() }}), Ok(Err(e)) => Err(e), Err(p) => Err(format!(\"PANIC: {{}}\", p)) }}").unwrap();
    writeln!(out, "    }}").unwrap();
    writeln!(out, "    pub struct Drv;").unwrap();
    writeln!(out, "    impl abirt::Driver for Drv {{").unwrap();
    writeln!(out, "        fn connect(&self, ctx: &Arc<Ctx>, mode: ConnMode) -> Result<Box<dyn abirt::Conn>, String> {{ Ok(Box::new(mk(ctx, mode)?)) }}").unwrap();
    if fam.send_sync {
        writeln!(
            out,
            "        fn connect_shared(&self, ctx: &Arc<Ctx>, mode: ConnMode) -> Option<Result<Arc<dyn SharedConn>, String>> {{ Some(mk(ctx, mode).map(|c| Arc::new(c) as Arc<dyn SharedConn>)) }}"
        )
        .unwrap();
    }
    writeln!(
        out,
        "        fn verify_ledger(&self, dir: &str) -> Result<(), String> {{ match abirt::guard_any(|| savefile_abi::verify_compatiblity::<dyn {}>(dir)) {{ Ok(r) => r.map_err(|e| format!(\"{{:?}}\", e)), Err(p) => Err(format!(\"PANIC: {{}}\", p)) }} }}",
        t
    )
    .unwrap();
    writeln!(out, "        fn latest_version(&self) -> u32 {{ <dyn {} as AbiExportable>::get_latest_version() }}", t).unwrap();
    writeln!(
        out,
        "        fn connection_markers(&self) -> (bool, bool) {{ use abirt::{{NotSend, NotSync}}; let p = abirt::Probe::<AbiConnection<dyn {}>>(std::marker::PhantomData); (p.is_send(), p.is_sync()) }}",
        t
    )
    .unwrap();
    writeln!(out, "        fn trait_name(&self) -> String {{ \"{}\".to_string() }}", t).unwrap();
    writeln!(out, "    }}").unwrap();
    writeln!(out, "  }}").unwrap();
}

pub fn emit_batch(b: &Batch) -> String {
    let mut out = String::new();
    writeln!(out, "// GENERATED by abigen (seed {}) — do not edit", b.seed).unwrap();
    writeln!(out, "#![allow(warnings)]").unwrap();
    writeln!(out, "pub const SEED: u64 = {};", b.seed).unwrap();
    writeln!(out, "pub const IR_JSON: &str = include_str!(\"families.json\");").unwrap();
    writeln!(out, "/// drivers()[family][revision]").unwrap();
    writeln!(out, "pub fn drivers() -> Vec<Vec<Box<dyn abirt::Driver>>> {{ vec![").unwrap();
    for f in &b.families {
        let items: Vec<String> = f.revs.iter().map(|r| format!("Box::new({}::{}::Drv) as Box<dyn abirt::Driver>", f.module, r.module)).collect();
        writeln!(out, "    vec![{}],", items.join(", ")).unwrap();
    }
    writeln!(out, "] }}").unwrap();
    for f in &b.families {
        writeln!(out, "pub mod {} {{", f.module).unwrap();
        for ri in 0..f.revs.len() {
            emit_rev(f, ri, &mut out);
        }
        writeln!(out, "}}").unwrap();
    }
    out
}
