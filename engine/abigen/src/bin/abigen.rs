//! abigen: writes the sources of the generated crate gen_abi for one seed. Files are only
//! rewritten when their content changes, so cargo skips rebuilding an unchanged batch.
//!   abigen --seed N [--scale K] [--out gen_abi/src] [--stats]
use std::path::Path;

fn write_if_changed(path: &Path, content: &str) {
    if let Ok(old) = std::fs::read_to_string(path) {
        if old == content {
            return;
        }
    }
    std::fs::create_dir_all(path.parent().unwrap()).unwrap();
    std::fs::write(path, content).unwrap();
}

fn arg(args: &[String], name: &str, def: &str) -> String {
    args.iter().position(|a| a == name).and_then(|i| args.get(i + 1).cloned()).unwrap_or(def.to_string())
}

fn main() {
    let args: Vec<String> = std::env::args().collect();
    let seed: u64 = arg(&args, "--seed", &std::env::var("VERIF_SEED").unwrap_or("0".into())).trim().parse::<i128>().map(|x| x as u64).unwrap_or(0);
    let scale: usize = arg(&args, "--scale", "1").parse().unwrap();
    let out = arg(&args, "--out", "gen_abi/src");
    let out = Path::new(&out);
    let batch = abigen::gen::gen_batch(seed, scale);
    let src = abigen::emit::emit_batch(&batch);
    write_if_changed(&out.join("families.json"), &serde_json::to_string(&batch).unwrap());
    write_if_changed(&out.join("lib.rs"), &src);
    let revs: usize = batch.families.iter().map(|f| f.revs.len()).sum();
    let methods: usize = batch.families.iter().flat_map(|f| f.revs.iter()).map(|r| r.methods.len()).sum();
    eprintln!("abigen: seed {} scale {}: {} families, {} trait versions, {} methods, {} lines", seed, scale, batch.families.len(), revs, methods, src.lines().count());
    if args.iter().any(|a| a == "--stats") {
        for (k, v) in &batch.stats {
            println!("{:40} {}", k, v);
        }
    }
}
