//! Shared check-driver machinery: CLI, worker sharding (crash attribution), statistics,
//! evidence files, known-findings matching, replay files.
//!
//! Exit codes: 0 = property held on everything explored (KNOWN-FINDING lines allowed),
//! 1 = unlisted violation (prints `VIOLATION property=<id> replay=<path>`), 2 = inconclusive
//! (harness/build problem, watchdog).

use serde::{Deserialize, Serialize};
use serde_json::{json, Value};
use std::collections::{BTreeMap, BTreeSet};
use std::io::{BufRead, BufReader, Write};
use std::path::{Path, PathBuf};
use std::process::{Command, Stdio};
use std::time::Instant;

#[derive(Clone, Debug)]
pub struct Args {
    pub prop: String,
    pub tier: String,
    pub seed: u64,
    pub replay: Option<String>,
    pub worker: Option<(usize, usize)>,
    pub verif_dir: PathBuf,
    pub extra: Vec<String>,
}

pub fn parse_args() -> Args {
    let a: Vec<String> = std::env::args().collect();
    let get = |name: &str| a.iter().position(|x| x == name).and_then(|i| a.get(i + 1).cloned());
    let seed = get("--seed")
        .or_else(|| std::env::var("VERIF_SEED").ok())
        .and_then(|s| s.trim().parse::<i128>().ok())
        .map(|x| x as u64)
        .unwrap_or(0);
    let tier = get("--tier").or_else(|| std::env::var("VERIF_TIER").ok()).unwrap_or("quick".into());
    let tier = if tier == "thorough" { "thorough".to_string() } else { "quick".to_string() };
    let worker = get("--worker").map(|w| {
        let mut it = w.split('/');
        (it.next().unwrap().parse().unwrap(), it.next().unwrap().parse().unwrap())
    });
    let verif_dir = get("--verif-dir").map(PathBuf::from).unwrap_or_else(|| {
        std::env::var("VERIF_DIR").map(PathBuf::from).unwrap_or_else(|_| PathBuf::from("/verif"))
    });
    Args { prop: get("--prop").unwrap_or_default(), tier, seed, replay: get("--replay"), worker, verif_dir, extra: a }
}

#[derive(Clone, Debug, Serialize, Deserialize)]
pub struct Violation {
    /// flat object of strings: what failed, structurally (matched against known findings)
    pub signature: BTreeMap<String, String>,
    /// everything needed to re-run the case (+ observed / expected)
    pub replay: Value,
}

#[derive(Clone, Debug, Default, Serialize, Deserialize)]
pub struct Stats {
    pub evaluations: u64,
    pub nontrivial: BTreeSet<u64>,
    pub classes: BTreeMap<String, u64>,
    pub samples: Vec<Value>,
    pub violations: Vec<Violation>,
    pub excluded: BTreeMap<String, u64>,
    pub notes: Vec<String>,
    pub inconclusive: Vec<String>,
}

impl Stats {
    pub fn class(&mut self, k: &str) {
        *self.classes.entry(k.to_string()).or_insert(0) += 1;
    }
    pub fn class_n(&mut self, k: &str, n: u64) {
        *self.classes.entry(k.to_string()).or_insert(0) += n;
    }
    pub fn sample(&mut self, v: Value) {
        if self.samples.len() < 6 {
            self.samples.push(v);
        }
    }
    pub fn merge(&mut self, o: Stats) {
        self.evaluations += o.evaluations;
        self.nontrivial.extend(o.nontrivial);
        for (k, v) in o.classes {
            *self.classes.entry(k).or_insert(0) += v;
        }
        for (k, v) in o.excluded {
            *self.excluded.entry(k).or_insert(0) += v;
        }
        for s in o.samples {
            if self.samples.len() < 10 {
                self.samples.push(s);
            }
        }
        self.violations.extend(o.violations);
        self.notes.extend(o.notes);
        self.inconclusive.extend(o.inconclusive);
    }
}

#[derive(Clone, Debug, Serialize, Deserialize)]
pub struct KnownFinding {
    pub status: String, // "open" | "fixed"
    pub property: String,
    pub id: String,
    #[serde(default)]
    pub r#match: BTreeMap<String, String>,
    pub what: String,
    #[serde(default)]
    pub commit: Option<String>,
}

pub fn load_known(verif: &Path) -> Vec<KnownFinding> {
    let p = verif.join("known_findings.jsonl");
    let mut out = vec![];
    if let Ok(s) = std::fs::read_to_string(&p) {
        for line in s.lines() {
            let line = line.trim();
            if line.is_empty() || line.starts_with('#') {
                continue;
            }
            match serde_json::from_str::<KnownFinding>(line) {
                Ok(k) => out.push(k),
                Err(e) => eprintln!("known_findings.jsonl: bad line: {} ({})", line, e),
            }
        }
    }
    out
}

pub fn matches_known(sig: &BTreeMap<String, String>, k: &KnownFinding, prop: &str) -> bool {
    k.status == "open" && k.property == prop && !k.r#match.is_empty() && k.r#match.iter().all(|(key, val)| sig.get(key) == Some(val))
}

/// Driver side: run `nworkers` copies of this binary as workers, merge their stats.
/// A worker announces each unit of work (`UNIT <desc>`) before starting it and emits its
/// statistics after each unit, so that a crash (signal, abort) is attributed to that unit and
/// the shard is resumed after it (a shallow crash does not hide what lies behind it).
pub fn run_workers(args: &Args, nworkers: usize, extra_args: &[String]) -> Stats {
    let exe = std::env::current_exe().unwrap();
    let handles: Vec<_> = (0..nworkers)
        .map(|i| {
            let exe = exe.clone();
            let args = args.clone();
            let extra: Vec<String> = extra_args.to_vec();
            std::thread::spawn(move || {
                let mut total = Stats::default();
                let mut resume_after: Option<String> = None;
                let mut resume_in: Option<(String, u64)> = None;
                let mut aborts_per_unit: BTreeMap<String, u32> = BTreeMap::new();
                for _attempt in 0..400 {
                    let mut cmd = Command::new(&exe);
                    cmd.arg("--prop").arg(&args.prop).arg("--tier").arg(&args.tier).arg("--seed").arg(args.seed.to_string());
                    cmd.arg("--worker").arg(format!("{}/{}", i, nworkers));
                    cmd.arg("--verif-dir").arg(&args.verif_dir);
                    if let Some(r) = &resume_after {
                        cmd.arg("--resume-after").arg(r);
                    }
                    if let Some((u, k)) = &resume_in {
                        cmd.arg("--resume-unit").arg(u).arg("--skip-cases").arg(k.to_string());
                    }
                    for e in &extra {
                        cmd.arg(e);
                    }
                    cmd.env("RUST_BACKTRACE", "0");
                    cmd.stdout(Stdio::piped()).stderr(Stdio::piped());
                    // own process group: a worker that is killed (watchdog) or dies must not leave
                    // forked helpers behind that keep its output pipes open
                    {
                        use std::os::unix::process::CommandExt;
                        cmd.process_group(0);
                    }
                    let mut child = cmd.spawn().expect("spawn worker");
                    let pgid = child.id() as i32;
                    let kill_group = move || unsafe {
                        libc::kill(-pgid, libc::SIGKILL);
                    };
                    let out = child.stdout.take().unwrap();
                    let err = child.stderr.take().unwrap();
                    let errh = std::thread::spawn(move || {
                        let mut tail: Vec<String> = vec![];
                        for l in BufReader::new(err).lines().flatten() {
                            tail.push(l);
                            if tail.len() > 40 {
                                tail.remove(0);
                            }
                        }
                        tail
                    });
                    let mut last_unit = String::new();
                    let mut last_case: Option<u64> = None;
                    let mut done = false;
                    // watchdog: a unit that makes no progress for `unit_timeout` is killed and
                    // reported as inconclusive (never as a violation); the shard then resumes
                    let unit_timeout = std::time::Duration::from_secs(
                        args.extra.iter().position(|x| x == "--unit-timeout").and_then(|k| args.extra.get(k + 1)).and_then(|v| v.parse().ok()).unwrap_or(if args.tier == "thorough" { 1800 } else { 300 }),
                    );
                    let (tx, rx) = std::sync::mpsc::channel::<String>();
                    let reader = std::thread::spawn(move || {
                        for l in BufReader::new(out).lines().flatten() {
                            if tx.send(l).is_err() {
                                break;
                            }
                        }
                    });
                    let mut timed_out = false;
                    loop {
                        match rx.recv_timeout(unit_timeout) {
                            Ok(l) => {
                                if let Some(u) = l.strip_prefix("UNIT ") {
                                    last_unit = u.to_string();
                                    last_case = None;
                                } else if let Some(k) = l.strip_prefix("CASE ") {
                                    last_case = k.trim().parse().ok();
                                } else if let Some(s) = l.strip_prefix("STATS ") {
                                    match serde_json::from_str::<Stats>(s) {
                                        Ok(st) => total.merge(st),
                                        Err(e) => eprintln!("worker {}: bad stats: {}", i, e),
                                    }
                                } else if l == "DONE" {
                                    done = true;
                                }
                            }
                            Err(std::sync::mpsc::RecvTimeoutError::Timeout) => {
                                timed_out = true;
                                let _ = child.kill();
                                kill_group();
                                break;
                            }
                            Err(std::sync::mpsc::RecvTimeoutError::Disconnected) => break,
                        }
                    }
                    let status = child.wait().unwrap();
                    kill_group();
                    let _ = reader.join();
                    if timed_out {
                        let _ = errh.join();
                        total.inconclusive.push(format!("watchdog: worker {} made no progress for {:?} in unit {} (killed; hang or very slow case)", i, unit_timeout, last_unit));
                        if last_unit.is_empty() {
                            return total;
                        }
                        resume_after = Some(last_unit);
                        resume_in = None;
                        continue;
                    }
                    let tail = errh.join().unwrap().join("\n");
                    if status.success() && done {
                        return total;
                    }
                    use std::os::unix::process::ExitStatusExt;
                    let oom = tail.contains("memory allocation of") || tail.contains("capacity overflow");
                    // size of the failed allocation, if the runtime reported one
                    let oom_bytes: Option<u128> = tail.rsplit("memory allocation of ").next().and_then(|t| t.split(' ').next()).and_then(|n| n.parse().ok()).filter(|_| tail.contains("memory allocation of"));
                    let case_resumable = last_case.is_some() && extra.iter().any(|x| x == "--oom-abort-excepted");
                    if let Some(sig) = status.signal() {
                        if case_resumable && (sig == 14 || (oom && oom_bytes.map_or(false, |b| b >= 1 << 30))) {
                            // C06: an allocation of >= 1 GiB requested for a small crafted input is a
                            // genuine out-of-memory on an absurd declared length (excepted by the
                            // property); SIGALRM = one case exceeded its time limit. Both are counted
                            // and the unit continues after the case.
                            let key = if sig == 14 { "case_time_limit_exceeded" } else { "oom_abort_on_absurd_length_excepted" };
                            *total.excluded.entry(key.to_string()).or_insert(0) += 1;
                            if sig == 14 {
                                total.notes.push(format!("case {} of unit {} exceeded the per-case time limit (killed)", last_case.unwrap(), last_unit));
                            }
                            let cnt = aborts_per_unit.entry(last_unit.clone()).or_insert(0u32);
                            *cnt += 1;
                            if *cnt >= (if args.tier == "thorough" { 25 } else { 6 }) {
                                // this type keeps exhausting memory/time on crafted lengths: stop
                                // spending the budget on it and go on with the next unit
                                *total.excluded.entry("unit_cut_short_after_repeated_excepted_aborts".to_string()).or_insert(0) += 1;
                                total.notes.push(format!("unit {} cut short after repeated excepted aborts (allocation failure / time limit on absurd declared lengths)", last_unit));
                                resume_after = Some(last_unit.clone());
                                resume_in = None;
                                continue;
                            }
                            resume_after = None;
                            resume_in = Some((last_unit.clone(), last_case.unwrap() + 1));
                            continue;
                        }
                        if oom {
                            total.inconclusive.push(format!("worker {} aborted on allocation failure in unit {}: {}", i, last_unit, tail));
                        } else {
                            let mut signature = BTreeMap::new();
                            signature.insert("check".into(), "process_crash".into());
                            signature.insert("signal".into(), sig.to_string());
                            signature.insert("unit".into(), last_unit.clone());
                            total.violations.push(Violation {
                                signature,
                                replay: json!({"kind":"process_crash","unit":last_unit,"signal":sig,"stderr_tail":tail}),
                            });
                        }
                    } else {
                        total.inconclusive.push(format!("worker {} exited with {:?} in unit {}: {}", i, status.code(), last_unit, tail));
                    }
                    if last_unit.is_empty() {
                        return total;
                    }
                    resume_after = Some(last_unit);
                    resume_in = None;
                }
                total.inconclusive.push(format!("worker {}: too many crashes, shard abandoned", i));
                total
            })
        })
        .collect();
    let mut total = Stats::default();
    for h in handles {
        total.merge(h.join().unwrap());
    }
    total
}

/// Worker side: iterate over this shard's units, honouring --resume-after.
pub struct Shard {
    idx: usize,
    n: usize,
    counter: usize,
    resume_after: Option<String>,
    /// resume inside this unit: skip the first k cases of it
    resume_unit: Option<String>,
    pub skip_cases: u64,
}
impl Shard {
    pub fn new(args: &Args) -> Shard {
        let (idx, n) = args.worker.expect("worker mode");
        let resume_after = args.extra.iter().position(|x| x == "--resume-after").and_then(|i| args.extra.get(i + 1).cloned());
        let get = |name: &str| args.extra.iter().position(|x| x == name).and_then(|i| args.extra.get(i + 1).cloned());
        let resume_unit = get("--resume-unit");
        let skip_cases = get("--skip-cases").and_then(|v| v.parse().ok()).unwrap_or(0);
        Shard { idx, n, counter: 0, resume_after, resume_unit, skip_cases }
    }
    /// number of leading cases to skip for the unit just taken (0 unless resuming inside it)
    pub fn skip_for_current(&mut self) -> u64 {
        let k = self.skip_cases;
        self.skip_cases = 0;
        k
    }
    /// returns true if the unit belongs to this shard and should be run now (announces it)
    pub fn take(&mut self, unit: &str) -> bool {
        self.counter += 1;
        if self.counter % self.n != self.idx {
            return false;
        }
        if let Some(r) = &self.resume_after {
            if r == unit {
                self.resume_after = None;
            }
            return false;
        }
        if let Some(r) = &self.resume_unit {
            if r != unit {
                return false;
            }
            self.resume_unit = None;
        } else {
            self.skip_cases = 0;
        }
        announce_unit(unit);
        true
    }
    pub fn done(&self) {
        let out = std::io::stdout();
        let mut o = out.lock();
        writeln!(o, "DONE").unwrap();
        o.flush().unwrap();
    }
}

pub fn worker_emit(stats: &Stats) {
    let out = std::io::stdout();
    let mut o = out.lock();
    writeln!(o, "STATS {}", serde_json::to_string(stats).unwrap()).unwrap();
    o.flush().unwrap();
}

pub fn announce_case(k: u64) {
    let out = std::io::stdout();
    let mut o = out.lock();
    writeln!(o, "CASE {}", k).unwrap();
    o.flush().unwrap();
}

pub fn announce_unit(desc: &str) {
    let out = std::io::stdout();
    let mut o = out.lock();
    writeln!(o, "UNIT {}", desc).unwrap();
    o.flush().unwrap();
}

pub struct Report<'a> {
    pub args: &'a Args,
    pub level: &'a str,
    pub rule: &'a str,
    pub assumptions: Vec<String>,
    pub extra_coverage: Value,
    pub exhaustive: bool,
}

/// State carried between the rounds of a multi-round (thorough) run: `./check` runs the check
/// binary once per generated batch of definitions (`--round r/R --acc <file>`); every round
/// merges its statistics into the accumulator so that the evidence file written by the last
/// round describes the whole run.
#[derive(Default, Serialize, Deserialize)]
struct Acc {
    stats: Stats,
    known_hits: BTreeMap<String, u64>,
    nviol: usize,
    round_seeds: Vec<u64>,
    wall: f64,
}

fn round_arg(args: &Args) -> Option<(usize, usize)> {
    let i = args.extra.iter().position(|x| x == "--round")?;
    let w = args.extra.get(i + 1)?;
    let mut it = w.split('/');
    Some((it.next()?.parse().ok()?, it.next()?.parse().ok()?))
}

/// Finish a run: match violations against known findings, write replay files and the evidence
/// file, print VIOLATION / KNOWN-FINDING lines, return the exit code.
pub fn finish(rep: Report, mut stats: Stats, started: Instant) -> i32 {
    let args = rep.args;
    let known = load_known(&args.verif_dir);
    let mut known_hits: BTreeMap<String, u64> = BTreeMap::new();
    let mut unlisted: Vec<Violation> = vec![];
    for v in stats.violations.drain(..) {
        if let Some(k) = known.iter().find(|k| matches_known(&v.signature, k, &args.prop)) {
            *known_hits.entry(k.id.clone()).or_insert(0) += 1;
        } else {
            unlisted.push(v);
        }
    }
    let replay_dir = args.verif_dir.join("replays");
    let _ = std::fs::create_dir_all(&replay_dir);
    // de-duplicate unlisted violations by signature, keep first of each
    let mut seen = BTreeSet::new();
    let mut reported = vec![];
    for v in unlisted.iter() {
        let key = serde_json::to_string(&v.signature).unwrap();
        if !seen.insert(key.clone()) {
            continue;
        }
        let h = vcore::rng::fnv64(serde_json::to_string(&v.replay).unwrap().as_bytes());
        let path = replay_dir.join(format!("{}-{:016x}.json", args.prop, h));
        let body = json!({"property": args.prop, "seed": args.seed, "tier": args.tier, "signature": v.signature, "case": v.replay});
        let _ = std::fs::write(&path, serde_json::to_string_pretty(&body).unwrap());
        reported.push(path);
    }
    let this_nviol = unlisted.len();
    let this_inconclusive = stats.inconclusive.clone();
    let mut wall = started.elapsed().as_secs_f64();
    let mut nviol = this_nviol;
    // multi-round accumulation
    let round = round_arg(args);
    let acc_path = args.extra.iter().position(|x| x == "--acc").and_then(|i| args.extra.get(i + 1)).map(PathBuf::from);
    let base_seed = args
        .extra
        .iter()
        .position(|x| x == "--base-seed")
        .and_then(|i| args.extra.get(i + 1))
        .and_then(|s| s.parse::<i128>().ok())
        .map(|x| x as u64)
        .unwrap_or(args.seed);
    let mut round_seeds = vec![args.seed];
    if let Some(p) = &acc_path {
        let mut acc: Acc = match round {
            Some((r, _)) if r > 0 => std::fs::read_to_string(p).ok().and_then(|s| serde_json::from_str(&s).ok()).unwrap_or_default(),
            _ => Acc::default(),
        };
        acc.stats.merge(std::mem::take(&mut stats));
        for (k, v) in &known_hits {
            *acc.known_hits.entry(k.clone()).or_insert(0) += v;
        }
        acc.nviol += this_nviol;
        acc.round_seeds.push(args.seed);
        acc.wall += wall;
        let _ = std::fs::write(p, serde_json::to_string(&acc).unwrap());
        stats = acc.stats;
        known_hits = acc.known_hits;
        nviol = acc.nviol;
        round_seeds = acc.round_seeds;
        wall = acc.wall;
    }
    let last_round = round.map(|(r, n)| r + 1 >= n).unwrap_or(true);
    if last_round {
        for k in known.iter().filter(|k| k.status == "open" && k.property == args.prop) {
            let n = known_hits.get(&k.id).copied().unwrap_or(0);
            println!("KNOWN-FINDING: property={} {} [{}; reproduced {} time(s) in this run]", args.prop, k.what, k.id, n);
        }
    }
    for p in &reported {
        println!("VIOLATION property={} replay={}", args.prop, p.display());
    }
    let mut coverage = json!({
        "evaluations": stats.evaluations,
        "distinct_nontrivial": stats.nontrivial.len(),
        "rule": rep.rule,
        "samples": stats.samples,
        "classes": stats.classes,
        "excluded_by_construction": stats.excluded,
        "known_finding_hits": known_hits,
        "notes": stats.notes,
        "inconclusive": stats.inconclusive,
        "exhaustive": rep.exhaustive,
        "definition_batches": round_seeds.len(),
        "definition_batch_seeds": round_seeds,
    });
    if let (Value::Object(c), Value::Object(e)) = (&mut coverage, rep.extra_coverage) {
        for (k, v) in e {
            c.insert(k, v);
        }
    }
    let ev = json!({
        "property_id": args.prop,
        "tier": args.tier,
        "seed": base_seed,
        "level": rep.level,
        "coverage": coverage,
        "assumptions": rep.assumptions,
        "wall_s": wall,
        "violations": nviol,
    });
    let evdir = args.verif_dir.join("evidence");
    let _ = std::fs::create_dir_all(&evdir);
    let evpath = evdir.join(format!("{}.json", args.prop));
    std::fs::write(&evpath, serde_json::to_string_pretty(&ev).unwrap()).expect("write evidence");
    eprintln!(
        "[{}] tier={} seed={}{} evaluations={} distinct_nontrivial={} violations={} known_hits={:?} inconclusive={} wall={:.1}s",
        args.prop,
        args.tier,
        args.seed,
        round.map(|(r, n)| format!(" round={}/{} (cumulative)", r + 1, n)).unwrap_or_default(),
        stats.evaluations,
        stats.nontrivial.len(),
        nviol,
        known_hits,
        stats.inconclusive.len(),
        wall
    );
    if this_nviol > 0 {
        1
    } else if !this_inconclusive.is_empty() {
        for i in &this_inconclusive {
            eprintln!("INCONCLUSIVE: {}", i.chars().take(600).collect::<String>());
        }
        2
    } else {
        0
    }
}

pub fn hex(b: &[u8]) -> String {
    let mut s = String::new();
    for (i, x) in b.iter().enumerate() {
        if i >= 96 {
            s.push_str(&format!("…(+{} bytes)", b.len() - i));
            break;
        }
        s.push_str(&format!("{:02x}", x));
    }
    s
}
pub fn hex_full(b: &[u8]) -> String {
    b.iter().map(|x| format!("{:02x}", x)).collect()
}
pub fn unhex(s: &str) -> Vec<u8> {
    (0..s.len() / 2).map(|i| u8::from_str_radix(&s[2 * i..2 * i + 2], 16).unwrap()).collect()
}
