//! `Dyn`: conversion between concrete Rust values and the dynamic value tree.
//! Blanket impls for the catalogue of supported std / third-party types; generated
//! definitions get emitted impls.

use std::collections::{BTreeMap, BTreeSet, BinaryHeap, HashMap, HashSet, VecDeque};
use std::net::{IpAddr, Ipv4Addr, Ipv6Addr, SocketAddr, SocketAddrV4, SocketAddrV6};
use std::rc::Rc;
use std::sync::Arc;
use std::time::{Duration, SystemTime};
use vcore::dv::DV;

pub trait Dyn: Sized {
    fn to_dyn(&self) -> DV;
    fn from_dyn(d: &DV) -> Self;
}

macro_rules! int_dyn {
    ($($t:ty, $u:ty);*) => {$(
        impl Dyn for $t {
            fn to_dyn(&self) -> DV { DV::N((*self as $u) as u128) }
            fn from_dyn(d: &DV) -> Self { d.n() as $u as $t }
        }
    )*};
}
int_dyn!(u8,u8; i8,u8; u16,u16; i16,u16; u32,u32; i32,u32; u64,u64; i64,u64; u128,u128; i128,u128; usize,u64; isize,u64);

impl Dyn for bool {
    fn to_dyn(&self) -> DV {
        DV::N(*self as u128)
    }
    fn from_dyn(d: &DV) -> Self {
        d.n() != 0
    }
}
impl Dyn for char {
    fn to_dyn(&self) -> DV {
        DV::N(*self as u32 as u128)
    }
    fn from_dyn(d: &DV) -> Self {
        char::from_u32(d.n() as u32).expect("DV char must be a scalar value")
    }
}
impl Dyn for f32 {
    fn to_dyn(&self) -> DV {
        DV::N(self.to_bits() as u128)
    }
    fn from_dyn(d: &DV) -> Self {
        f32::from_bits(d.n() as u32)
    }
}
impl Dyn for f64 {
    fn to_dyn(&self) -> DV {
        DV::N(self.to_bits() as u128)
    }
    fn from_dyn(d: &DV) -> Self {
        f64::from_bits(d.n() as u64)
    }
}
impl Dyn for String {
    fn to_dyn(&self) -> DV {
        DV::S(self.clone())
    }
    fn from_dyn(d: &DV) -> Self {
        d.s().to_string()
    }
}
impl Dyn for () {
    fn to_dyn(&self) -> DV {
        DV::unit()
    }
    fn from_dyn(_d: &DV) -> Self {}
}
impl<T> Dyn for std::marker::PhantomData<T> {
    fn to_dyn(&self) -> DV {
        DV::unit()
    }
    fn from_dyn(_d: &DV) -> Self {
        std::marker::PhantomData
    }
}
impl<T: Dyn> Dyn for Option<T> {
    fn to_dyn(&self) -> DV {
        match self {
            None => DV::none(),
            Some(x) => DV::some(x.to_dyn()),
        }
    }
    fn from_dyn(d: &DV) -> Self {
        let (i, l) = d.v();
        if i == 0 {
            None
        } else {
            Some(T::from_dyn(&l[0]))
        }
    }
}
impl<T: Dyn, E: Dyn> Dyn for Result<T, E> {
    fn to_dyn(&self) -> DV {
        match self {
            Ok(x) => DV::V(1, vec![x.to_dyn()]),
            Err(x) => DV::V(0, vec![x.to_dyn()]),
        }
    }
    fn from_dyn(d: &DV) -> Self {
        let (i, l) = d.v();
        if i == 1 {
            Ok(T::from_dyn(&l[0]))
        } else {
            Err(E::from_dyn(&l[0]))
        }
    }
}

fn seq_to<'a, T: Dyn + 'a>(it: impl Iterator<Item = &'a T>) -> DV {
    DV::L(it.map(|x| x.to_dyn()).collect())
}
fn seq_from<T: Dyn, C: FromIterator<T>>(d: &DV) -> C {
    d.l().iter().map(|x| T::from_dyn(x)).collect()
}

impl<T: Dyn> Dyn for Vec<T> {
    fn to_dyn(&self) -> DV {
        seq_to(self.iter())
    }
    fn from_dyn(d: &DV) -> Self {
        seq_from(d)
    }
}
impl<T: Dyn> Dyn for VecDeque<T> {
    fn to_dyn(&self) -> DV {
        seq_to(self.iter())
    }
    fn from_dyn(d: &DV) -> Self {
        // build a deque whose ring buffer is wrapped (exercise both slices)
        let mut q: VecDeque<T> = VecDeque::new();
        let items = d.l();
        let half = items.len() / 2;
        for x in items[half..].iter() {
            q.push_back(T::from_dyn(x));
        }
        for x in items[..half].iter().rev() {
            q.push_front(T::from_dyn(x));
        }
        q
    }
}
impl<T: Dyn + Ord> Dyn for BinaryHeap<T> {
    fn to_dyn(&self) -> DV {
        let mut v: Vec<DV> = self.iter().map(|x| x.to_dyn()).collect();
        v.sort();
        DV::L(v)
    }
    fn from_dyn(d: &DV) -> Self {
        seq_from(d)
    }
}
impl<T: Dyn> Dyn for Box<[T]> {
    fn to_dyn(&self) -> DV {
        seq_to(self.iter())
    }
    fn from_dyn(d: &DV) -> Self {
        seq_from::<T, Vec<T>>(d).into_boxed_slice()
    }
}
impl<T: Dyn> Dyn for Arc<[T]> {
    fn to_dyn(&self) -> DV {
        seq_to(self.iter())
    }
    fn from_dyn(d: &DV) -> Self {
        seq_from::<T, Vec<T>>(d).into()
    }
}
impl<A: smallvec::Array> Dyn for smallvec::SmallVec<A>
where
    A::Item: Dyn,
{
    fn to_dyn(&self) -> DV {
        seq_to(self.iter())
    }
    fn from_dyn(d: &DV) -> Self {
        d.l().iter().map(|x| <A::Item as Dyn>::from_dyn(x)).collect()
    }
}
impl<T: Dyn, const N: usize> Dyn for arrayvec::ArrayVec<T, N> {
    fn to_dyn(&self) -> DV {
        seq_to(self.iter())
    }
    fn from_dyn(d: &DV) -> Self {
        d.l().iter().map(|x| T::from_dyn(x)).collect()
    }
}
impl<const N: usize> Dyn for arrayvec::ArrayString<N> {
    fn to_dyn(&self) -> DV {
        DV::S(self.as_str().to_string())
    }
    fn from_dyn(d: &DV) -> Self {
        arrayvec::ArrayString::from(d.s()).expect("ArrayString capacity")
    }
}
impl<T: Dyn + Eq + std::hash::Hash> Dyn for HashSet<T> {
    fn to_dyn(&self) -> DV {
        let mut v: Vec<DV> = self.iter().map(|x| x.to_dyn()).collect();
        v.sort();
        DV::L(v)
    }
    fn from_dyn(d: &DV) -> Self {
        seq_from(d)
    }
}
impl<T: Dyn + Ord> Dyn for BTreeSet<T> {
    fn to_dyn(&self) -> DV {
        seq_to(self.iter())
    }
    fn from_dyn(d: &DV) -> Self {
        seq_from(d)
    }
}
impl<T: Dyn + Eq + std::hash::Hash> Dyn for indexmap::IndexSet<T> {
    fn to_dyn(&self) -> DV {
        seq_to(self.iter())
    }
    fn from_dyn(d: &DV) -> Self {
        seq_from(d)
    }
}
fn map_to<'a, K: Dyn + 'a, V: Dyn + 'a>(it: impl Iterator<Item = (&'a K, &'a V)>) -> Vec<DV> {
    it.map(|(k, v)| DV::L(vec![k.to_dyn(), v.to_dyn()])).collect()
}
fn map_from<K: Dyn, V: Dyn, C: FromIterator<(K, V)>>(d: &DV) -> C {
    d.l()
        .iter()
        .map(|kv| {
            let kv = kv.l();
            (K::from_dyn(&kv[0]), V::from_dyn(&kv[1]))
        })
        .collect()
}
impl<K: Dyn + Eq + std::hash::Hash, V: Dyn> Dyn for HashMap<K, V> {
    fn to_dyn(&self) -> DV {
        let mut v = map_to(self.iter());
        v.sort();
        DV::L(v)
    }
    fn from_dyn(d: &DV) -> Self {
        map_from(d)
    }
}
impl<K: Dyn + Ord, V: Dyn> Dyn for BTreeMap<K, V> {
    fn to_dyn(&self) -> DV {
        DV::L(map_to(self.iter()))
    }
    fn from_dyn(d: &DV) -> Self {
        map_from(d)
    }
}
impl<K: Dyn + Eq + std::hash::Hash, V: Dyn> Dyn for indexmap::IndexMap<K, V> {
    fn to_dyn(&self) -> DV {
        DV::L(map_to(self.iter()))
    }
    fn from_dyn(d: &DV) -> Self {
        map_from(d)
    }
}
impl<T: Dyn, const N: usize> Dyn for [T; N] {
    fn to_dyn(&self) -> DV {
        seq_to(self.iter())
    }
    fn from_dyn(d: &DV) -> Self {
        let l = d.l();
        assert_eq!(l.len(), N);
        std::array::from_fn(|i| T::from_dyn(&l[i]))
    }
}
impl<A: Dyn> Dyn for (A,) {
    fn to_dyn(&self) -> DV {
        DV::L(vec![self.0.to_dyn()])
    }
    fn from_dyn(d: &DV) -> Self {
        (A::from_dyn(&d.l()[0]),)
    }
}
impl<A: Dyn, B: Dyn> Dyn for (A, B) {
    fn to_dyn(&self) -> DV {
        DV::L(vec![self.0.to_dyn(), self.1.to_dyn()])
    }
    fn from_dyn(d: &DV) -> Self {
        let l = d.l();
        (A::from_dyn(&l[0]), B::from_dyn(&l[1]))
    }
}
impl<A: Dyn, B: Dyn, C: Dyn> Dyn for (A, B, C) {
    fn to_dyn(&self) -> DV {
        DV::L(vec![self.0.to_dyn(), self.1.to_dyn(), self.2.to_dyn()])
    }
    fn from_dyn(d: &DV) -> Self {
        let l = d.l();
        (A::from_dyn(&l[0]), B::from_dyn(&l[1]), C::from_dyn(&l[2]))
    }
}
impl<T: Dyn> Dyn for std::ops::Range<T> {
    fn to_dyn(&self) -> DV {
        DV::L(vec![self.start.to_dyn(), self.end.to_dyn()])
    }
    fn from_dyn(d: &DV) -> Self {
        let l = d.l();
        T::from_dyn(&l[0])..T::from_dyn(&l[1])
    }
}
macro_rules! wrap_dyn {
    ($($w:ty => $get:expr, $new:expr);*) => {$(
        impl<T: Dyn> Dyn for $w {
            fn to_dyn(&self) -> DV { let g: fn(&$w) -> DV = $get; g(self) }
            fn from_dyn(d: &DV) -> Self { let n: fn(T) -> $w = $new; n(T::from_dyn(d)) }
        }
    )*};
}
wrap_dyn!(
    Box<T> => |s| (**s).to_dyn(), Box::new;
    Rc<T> => |s| (**s).to_dyn(), Rc::new;
    Arc<T> => |s| (**s).to_dyn(), Arc::new;
    std::cell::RefCell<T> => |s| s.borrow().to_dyn(), std::cell::RefCell::new;
    std::sync::Mutex<T> => |s| s.lock().unwrap().to_dyn(), std::sync::Mutex::new;
    parking_lot::Mutex<T> => |s| s.lock().to_dyn(), parking_lot::Mutex::new;
    parking_lot::RwLock<T> => |s| s.read().to_dyn(), parking_lot::RwLock::new
);
impl<T: Dyn + Copy> Dyn for std::cell::Cell<T> {
    fn to_dyn(&self) -> DV {
        self.get().to_dyn()
    }
    fn from_dyn(d: &DV) -> Self {
        std::cell::Cell::new(T::from_dyn(d))
    }
}
impl Dyn for Arc<str> {
    fn to_dyn(&self) -> DV {
        DV::S(self.to_string())
    }
    fn from_dyn(d: &DV) -> Self {
        d.s().into()
    }
}
impl Dyn for std::path::PathBuf {
    fn to_dyn(&self) -> DV {
        DV::S(self.to_string_lossy().to_string())
    }
    fn from_dyn(d: &DV) -> Self {
        std::path::PathBuf::from(d.s())
    }
}
impl Dyn for std::borrow::Cow<'static, str> {
    fn to_dyn(&self) -> DV {
        DV::S(self.to_string())
    }
    fn from_dyn(d: &DV) -> Self {
        std::borrow::Cow::Owned(d.s().to_string())
    }
}
impl Dyn for Duration {
    fn to_dyn(&self) -> DV {
        DV::L(vec![DV::N(self.as_secs() as u128), DV::N(self.subsec_nanos() as u128)])
    }
    fn from_dyn(d: &DV) -> Self {
        let l = d.l();
        Duration::new(l[0].n() as u64, l[1].n() as u32)
    }
}
impl Dyn for SystemTime {
    fn to_dyn(&self) -> DV {
        match self.duration_since(SystemTime::UNIX_EPOCH) {
            Ok(d) => DV::L(vec![DV::N(0), DV::N(d.as_secs() as u128), DV::N(d.subsec_nanos() as u128)]),
            Err(e) => {
                let d = e.duration();
                DV::L(vec![DV::N(1), DV::N(d.as_secs() as u128), DV::N(d.subsec_nanos() as u128)])
            }
        }
    }
    fn from_dyn(d: &DV) -> Self {
        let l = d.l();
        let dur = Duration::new(l[1].n() as u64, l[2].n() as u32);
        if l[0].n() == 0 || dur == Duration::ZERO {
            SystemTime::UNIX_EPOCH + dur
        } else {
            SystemTime::UNIX_EPOCH - dur
        }
    }
}
impl Dyn for IpAddr {
    fn to_dyn(&self) -> DV {
        match self {
            IpAddr::V4(a) => DV::V(0, vec![DV::N(a.to_bits() as u128)]),
            IpAddr::V6(a) => DV::V(1, vec![DV::N(a.to_bits())]),
        }
    }
    fn from_dyn(d: &DV) -> Self {
        let (i, l) = d.v();
        if i == 0 {
            IpAddr::V4(Ipv4Addr::from_bits(l[0].n() as u32))
        } else {
            IpAddr::V6(Ipv6Addr::from_bits(l[0].n()))
        }
    }
}
impl Dyn for SocketAddr {
    fn to_dyn(&self) -> DV {
        match self {
            SocketAddr::V4(a) => DV::V(0, vec![DV::N(a.port() as u128), DV::N(a.ip().to_bits() as u128)]),
            SocketAddr::V6(a) => DV::V(
                1,
                vec![DV::N(a.port() as u128), DV::N(a.ip().to_bits()), DV::N(a.flowinfo() as u128), DV::N(a.scope_id() as u128)],
            ),
        }
    }
    fn from_dyn(d: &DV) -> Self {
        let (i, l) = d.v();
        if i == 0 {
            SocketAddr::V4(SocketAddrV4::new(Ipv4Addr::from_bits(l[1].n() as u32), l[0].n() as u16))
        } else {
            SocketAddr::V6(SocketAddrV6::new(Ipv6Addr::from_bits(l[1].n()), l[0].n() as u16, l[2].n() as u32, l[3].n() as u32))
        }
    }
}
macro_rules! bitvec_dyn {
    ($bv:ty, $bs:ty) => {
        impl Dyn for $bv {
            fn to_dyn(&self) -> DV {
                let stray = {
                    // bit-vec's invariant: no storage beyond the last used word, unused bits of that word zero
                    let (n, st) = (self.len(), self.storage());
                    st.len() > (n + 31) / 32 || (n % 32 != 0 && !st.is_empty() && st[st.len() - 1] & !((1u32 << (n % 32)) - 1) != 0)
                };
                if stray && self.len() <= self.storage().len() * 32 {
                    return DV::V(u32::MAX, vec![DV::N(self.len() as u128), DV::N(self.storage().len() as u128 * 32), DV::N(1)]);
                }
                if self.len() > (1 << 22) || self.len() > self.storage().len() * 32 {
                    // oversized marker (a crafted input made the container claim this many bits,
                    // or more bits than it has storage for: using it panics inside bit-vec)
                    return DV::V(u32::MAX, vec![DV::N(self.len() as u128), DV::N(self.storage().len() as u128 * 32)]);
                }
                DV::L(self.iter().map(|b| DV::N(b as u128)).collect())
            }
            fn from_dyn(d: &DV) -> Self {
                let mut v = <$bv>::new();
                for b in d.l() {
                    v.push(b.n() != 0);
                }
                v
            }
        }
        impl Dyn for $bs {
            fn to_dyn(&self) -> DV {
                let stray = {
                    let (n, st) = (self.get_ref().len(), self.get_ref().storage());
                    st.len() > (n + 31) / 32 || (n % 32 != 0 && !st.is_empty() && st[st.len() - 1] & !((1u32 << (n % 32)) - 1) != 0)
                };
                if stray && self.get_ref().len() <= self.get_ref().storage().len() * 32 {
                    return DV::V(u32::MAX, vec![DV::N(self.get_ref().len() as u128), DV::N(self.get_ref().storage().len() as u128 * 32), DV::N(1)]);
                }
                if self.get_ref().len() > (1 << 22) || self.get_ref().len() > self.get_ref().storage().len() * 32 {
                    return DV::V(u32::MAX, vec![DV::N(self.get_ref().len() as u128), DV::N(self.get_ref().storage().len() as u128 * 32)]);
                }
                DV::L(self.iter().map(|b| DV::N(b as u128)).collect())
            }
            fn from_dyn(d: &DV) -> Self {
                let mut v = <$bs>::new();
                for b in d.l() {
                    v.insert(b.n() as usize);
                }
                v
            }
        }
    };
}
bitvec_dyn!(bit_vec::BitVec, bit_set::BitSet);
bitvec_dyn!(bit_vec08::BitVec, bit_set08::BitSet);

macro_rules! atomic_dyn {
    ($($a:ty, $t:ty);*) => {$(
        impl Dyn for $a {
            fn to_dyn(&self) -> DV { self.load(std::sync::atomic::Ordering::SeqCst).to_dyn() }
            fn from_dyn(d: &DV) -> Self { <$a>::new(<$t as Dyn>::from_dyn(d)) }
        }
    )*};
}
use std::sync::atomic::*;
atomic_dyn!(AtomicBool,bool; AtomicU8,u8; AtomicI8,i8; AtomicU16,u16; AtomicI16,i16; AtomicU32,u32; AtomicI32,i32; AtomicU64,u64; AtomicI64,i64; AtomicUsize,usize; AtomicIsize,isize);

impl Dyn for savefile::Canary1 {
    fn to_dyn(&self) -> DV {
        DV::unit()
    }
    fn from_dyn(_d: &DV) -> Self {
        savefile::Canary1::new()
    }
}

const IOKINDS: &[(u16, std::io::ErrorKind)] = &[
    (1, std::io::ErrorKind::NotFound),
    (2, std::io::ErrorKind::PermissionDenied),
    (3, std::io::ErrorKind::ConnectionRefused),
    (4, std::io::ErrorKind::ConnectionReset),
    (7, std::io::ErrorKind::ConnectionAborted),
    (8, std::io::ErrorKind::NotConnected),
    (9, std::io::ErrorKind::AddrInUse),
    (10, std::io::ErrorKind::AddrNotAvailable),
    (12, std::io::ErrorKind::BrokenPipe),
    (13, std::io::ErrorKind::AlreadyExists),
    (14, std::io::ErrorKind::WouldBlock),
    (21, std::io::ErrorKind::InvalidInput),
    (22, std::io::ErrorKind::InvalidData),
    (23, std::io::ErrorKind::TimedOut),
    (24, std::io::ErrorKind::WriteZero),
    (36, std::io::ErrorKind::Interrupted),
    (37, std::io::ErrorKind::Unsupported),
    (38, std::io::ErrorKind::UnexpectedEof),
    (39, std::io::ErrorKind::OutOfMemory),
    (40, std::io::ErrorKind::Other),
];
impl Dyn for std::io::Error {
    fn to_dyn(&self) -> DV {
        let k = IOKINDS.iter().find(|x| x.1 == self.kind()).map(|x| x.0).unwrap_or(40);
        DV::L(vec![DV::N(k as u128), DV::S(self.to_string())])
    }
    fn from_dyn(d: &DV) -> Self {
        let l = d.l();
        let k = IOKINDS.iter().find(|x| x.0 as u128 == l[0].n()).map(|x| x.1).unwrap_or(std::io::ErrorKind::Other);
        std::io::Error::new(k, l[1].s().to_string())
    }
}
impl Dyn for chrono::DateTime<chrono::Utc> {
    fn to_dyn(&self) -> DV {
        DV::N(self.timestamp_nanos_opt().expect("in range") as u64 as u128)
    }
    fn from_dyn(d: &DV) -> Self {
        chrono::DateTime::<chrono::Utc>::from_timestamp_nanos(d.n() as u64 as i64)
    }
}
