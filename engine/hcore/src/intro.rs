//! Type-erased access to `savefile::Introspect` of a root type (C17).
use crate::dynglue::Dyn;
use savefile::Introspect;
use std::marker::PhantomData;
use vcore::dv::DV;

pub trait IntroOps: Send + Sync {
    /// build the value and hand it to `f` as an introspectable object
    fn with(&self, dv: &DV, f: &mut dyn FnMut(&dyn Introspect));
}
pub struct IOps<T>(PhantomData<fn() -> T>);
impl<T: Dyn + Introspect + 'static> IntroOps for IOps<T> {
    fn with(&self, dv: &DV, f: &mut dyn FnMut(&dyn Introspect)) {
        let v = T::from_dyn(dv);
        f(&v)
    }
}
pub fn mk<T: Dyn + Introspect + 'static>() -> Option<Box<dyn IntroOps>> {
    Some(Box::new(IOps::<T>(PhantomData)))
}
pub fn none() -> Option<Box<dyn IntroOps>> {
    None
}
