//! savefile::Schema -> savefile-independent mirror (through public fields only; the private
//! memory-layout annotations are not needed to describe the wire format).
use savefile::prelude::*;
use savefile::{AbiTraitDefinition, ReceiverType, SchemaPrimitive as SP};
use vcore::rschema::*;

fn prim(p: &SP) -> RSchema {
    let k = match p {
        SP::schema_i8 => RPrim::I8,
        SP::schema_u8 => RPrim::U8,
        SP::schema_i16 => RPrim::I16,
        SP::schema_u16 => RPrim::U16,
        SP::schema_i32 => RPrim::I32,
        SP::schema_u32 => RPrim::U32,
        SP::schema_i64 => RPrim::I64,
        SP::schema_u64 => RPrim::U64,
        SP::schema_string(l) => return RSchema::Prim(RPrim::Str, *l as u8),
        SP::schema_f32 => RPrim::F32,
        SP::schema_f64 => RPrim::F64,
        SP::schema_bool => RPrim::Bool,
        SP::schema_canary1 => RPrim::Canary1,
        SP::schema_u128 => RPrim::U128,
        SP::schema_i128 => RPrim::I128,
        SP::schema_char => RPrim::Char,
    };
    RSchema::Prim(k, 0)
}

fn fields(fs: &[Field]) -> Vec<RField> {
    fs.iter().map(|f| RField { name: f.name.clone(), value: conv(&f.value), offset: None }).collect()
}

fn traitdef(t: &AbiTraitDefinition) -> RTraitDef {
    RTraitDef {
        name: t.name.clone(),
        sync: t.sync,
        send: t.send,
        methods: t
            .methods
            .iter()
            .map(|m| RMethod {
                name: m.name.clone(),
                ret: conv(&m.info.return_value),
                receiver: match m.info.receiver {
                    ReceiverType::Shared => 100,
                    ReceiverType::Mut => 101,
                    ReceiverType::PinMut => 102,
                    _ => 255,
                },
                is_async: m.info.async_trait_heuristic,
                args: m.info.arguments.iter().map(|a| conv(&a.schema)).collect(),
            })
            .collect(),
    }
}

pub fn conv(s: &Schema) -> RSchema {
    match s {
        Schema::Struct(st) => RSchema::Struct { name: st.dbg_name.clone(), fields: fields(&st.fields), size: None, align: None },
        Schema::Enum(e) => RSchema::Enum {
            name: e.dbg_name.clone(),
            variants: e.variants.iter().map(|v| RVariant { name: v.name.clone(), discr: v.discriminant, fields: fields(&v.fields) }).collect(),
            discr_size: e.discriminant_size,
            explicit_repr: false,
            size: None,
            align: None,
        },
        Schema::Primitive(p) => prim(p),
        Schema::Vector(i, l) => RSchema::Vector(Box::new(conv(i)), *l as u8),
        Schema::Array(a) => RSchema::Array(a.count as u64, Box::new(conv(&a.item_type))),
        Schema::SchemaOption(i) => RSchema::Option(Box::new(conv(i))),
        Schema::Undefined => RSchema::Undefined,
        Schema::ZeroSize => RSchema::ZeroSize,
        Schema::Custom(c) => RSchema::Custom(c.clone()),
        Schema::Boxed(i) => RSchema::Boxed(Box::new(conv(i))),
        Schema::Slice(i) => RSchema::Slice(Box::new(conv(i))),
        Schema::Str => RSchema::Str,
        Schema::Reference(i) => RSchema::Reference(Box::new(conv(i))),
        Schema::Trait(m, t) => RSchema::Trait(*m, traitdef(t)),
        Schema::FnClosure(m, t) => RSchema::FnClosure(*m, traitdef(t)),
        Schema::Recursion(d) => RSchema::Recursion(*d as u64),
        Schema::StdIoError => RSchema::StdIoError,
        Schema::Future(t, a, b, c) => RSchema::Future(traitdef(t), *a, *b, *c),
        Schema::UninitSlice => RSchema::UninitSlice,
        Schema::UtcTimestamp => RSchema::UtcTimestamp,
        _ => RSchema::Undefined,
    }
}

// ------------------------------------------------------------------------------------------
// mirror -> savefile::Schema (with layout annotations, through the public unsafe constructors)

use savefile::{AbiMethod, AbiMethodArgument, AbiMethodInfo, SchemaArray, VecOrStringLayout};

pub fn layout_from(b: u8) -> VecOrStringLayout {
    match b {
        1 => VecOrStringLayout::DataCapacityLength,
        2 => VecOrStringLayout::DataLengthCapacity,
        3 => VecOrStringLayout::CapacityDataLength,
        4 => VecOrStringLayout::LengthDataCapacity,
        5 => VecOrStringLayout::CapacityLengthData,
        6 => VecOrStringLayout::LengthCapacityData,
        7 => VecOrStringLayout::LengthData,
        8 => VecOrStringLayout::DataLength,
        _ => VecOrStringLayout::Unknown,
    }
}

fn to_prim(p: RPrim, layout: u8) -> SP {
    match p {
        RPrim::I8 => SP::schema_i8,
        RPrim::U8 => SP::schema_u8,
        RPrim::I16 => SP::schema_i16,
        RPrim::U16 => SP::schema_u16,
        RPrim::I32 => SP::schema_i32,
        RPrim::U32 => SP::schema_u32,
        RPrim::I64 => SP::schema_i64,
        RPrim::U64 => SP::schema_u64,
        RPrim::Str => SP::schema_string(layout_from(layout)),
        RPrim::F32 => SP::schema_f32,
        RPrim::F64 => SP::schema_f64,
        RPrim::Bool => SP::schema_bool,
        RPrim::Canary1 => SP::schema_canary1,
        RPrim::I128 => SP::schema_i128,
        RPrim::U128 => SP::schema_u128,
        RPrim::Char => SP::schema_char,
    }
}

fn to_fields(fs: &[RField]) -> Vec<Field> {
    fs.iter().map(|f| unsafe { Field::unsafe_new(f.name.clone(), Box::new(to_savefile(&f.value)), f.offset.map(|o| o as usize)) }).collect()
}

fn to_traitdef(t: &RTraitDef) -> AbiTraitDefinition {
    AbiTraitDefinition {
        name: t.name.clone(),
        sync: t.sync,
        send: t.send,
        methods: t
            .methods
            .iter()
            .map(|m| AbiMethod {
                name: m.name.clone(),
                info: AbiMethodInfo {
                    return_value: to_savefile(&m.ret),
                    receiver: match m.receiver {
                        101 => ReceiverType::Mut,
                        102 => ReceiverType::PinMut,
                        _ => ReceiverType::Shared,
                    },
                    arguments: m.args.iter().map(|a| AbiMethodArgument { schema: to_savefile(a) }).collect(),
                    async_trait_heuristic: m.is_async,
                },
            })
            .collect(),
    }
}

pub fn to_savefile(s: &RSchema) -> Schema {
    match s {
        RSchema::Struct { name, fields, size, align } => {
            Schema::Struct(SchemaStruct::new_unsafe(name.clone(), to_fields(fields), size.map(|x| x as usize), align.map(|x| x as usize)))
        }
        RSchema::Enum { name, variants, discr_size, explicit_repr, size, align } => Schema::Enum(SchemaEnum::new_unsafe(
            name.clone(),
            variants.iter().map(|v| Variant { name: v.name.clone(), discriminant: v.discr, fields: to_fields(&v.fields) }).collect(),
            *discr_size,
            *explicit_repr,
            size.map(|x| x as usize),
            align.map(|x| x as usize),
        )),
        RSchema::Prim(p, l) => Schema::Primitive(to_prim(*p, *l)),
        RSchema::Vector(i, l) => Schema::Vector(Box::new(to_savefile(i)), layout_from(*l)),
        RSchema::Undefined => Schema::Undefined,
        RSchema::ZeroSize => Schema::ZeroSize,
        RSchema::Option(i) => Schema::SchemaOption(Box::new(to_savefile(i))),
        RSchema::Array(n, i) => Schema::Array(SchemaArray { item_type: Box::new(to_savefile(i)), count: *n as usize }),
        RSchema::Custom(c) => Schema::Custom(c.clone()),
        RSchema::Boxed(i) => Schema::Boxed(Box::new(to_savefile(i))),
        RSchema::FnClosure(m, t) => Schema::FnClosure(*m, to_traitdef(t)),
        RSchema::Slice(i) => Schema::Slice(Box::new(to_savefile(i))),
        RSchema::Str => Schema::Str,
        RSchema::Reference(i) => Schema::Reference(Box::new(to_savefile(i))),
        RSchema::Trait(m, t) => Schema::Trait(*m, to_traitdef(t)),
        RSchema::Recursion(d) => Schema::Recursion(*d as usize),
        RSchema::StdIoError => Schema::StdIoError,
        RSchema::Future(t, a, b, c) => Schema::Future(to_traitdef(t), *a, *b, *c),
        RSchema::UninitSlice => Schema::UninitSlice,
        RSchema::UtcTimestamp => Schema::UtcTimestamp,
    }
}

/// Library serialization of a schema at library format version `f`
pub fn lib_write(s: &Schema, f: u16) -> Result<Vec<u8>, savefile::SavefileError> {
    let mut buf = Vec::new();
    {
        let mut ser = Serializer::<Vec<u8>>::new_raw(&mut buf, f as u32);
        s.serialize(&mut ser)?;
    }
    Ok(buf)
}
/// Library deserialization of a schema section; returns the schema and bytes consumed
pub fn lib_read(data: &[u8], f: u16) -> Result<(Schema, usize), savefile::SavefileError> {
    let mut cur = std::io::Cursor::new(data);
    let s = {
        let mut de = savefile::new_schema_deserializer(&mut cur, f);
        Schema::deserialize(&mut de)?
    };
    Ok((s, cur.position() as usize))
}
