//! savefile::Schema -> savefile-independent mirror (through public fields only; the private
//! memory-layout annotations are not needed to describe the wire format).
use savefile::prelude::*;
use savefile::{AbiTraitDefinition, ReceiverType, SchemaPrimitive as SP};
use vcore::rschema::*;

fn prim(p: &SP) -> RSchema {
    let k = match p {
        SP::schema_i8 => RPrim::I8,
        SP::schema_u8 => RPrim::U8,
        SP::schema_i16 => RPrim::I16,
        SP::schema_u16 => RPrim::U16,
        SP::schema_i32 => RPrim::I32,
        SP::schema_u32 => RPrim::U32,
        SP::schema_i64 => RPrim::I64,
        SP::schema_u64 => RPrim::U64,
        SP::schema_string(l) => return RSchema::Prim(RPrim::Str, *l as u8),
        SP::schema_f32 => RPrim::F32,
        SP::schema_f64 => RPrim::F64,
        SP::schema_bool => RPrim::Bool,
        SP::schema_canary1 => RPrim::Canary1,
        SP::schema_u128 => RPrim::U128,
        SP::schema_i128 => RPrim::I128,
        SP::schema_char => RPrim::Char,
    };
    RSchema::Prim(k, 0)
}

fn fields(fs: &[Field]) -> Vec<RField> {
    fs.iter().map(|f| RField { name: f.name.clone(), value: conv(&f.value), offset: None }).collect()
}

fn traitdef(t: &AbiTraitDefinition) -> RTraitDef {
    RTraitDef {
        name: t.name.clone(),
        sync: t.sync,
        send: t.send,
        methods: t
            .methods
            .iter()
            .map(|m| RMethod {
                name: m.name.clone(),
                ret: conv(&m.info.return_value),
                receiver: match m.info.receiver {
                    ReceiverType::Shared => 100,
                    ReceiverType::Mut => 101,
                    ReceiverType::PinMut => 102,
                    _ => 255,
                },
                is_async: m.info.async_trait_heuristic,
                args: m.info.arguments.iter().map(|a| conv(&a.schema)).collect(),
            })
            .collect(),
    }
}

pub fn conv(s: &Schema) -> RSchema {
    match s {
        Schema::Struct(st) => RSchema::Struct { name: st.dbg_name.clone(), fields: fields(&st.fields), size: None, align: None },
        Schema::Enum(e) => RSchema::Enum {
            name: e.dbg_name.clone(),
            variants: e.variants.iter().map(|v| RVariant { name: v.name.clone(), discr: v.discriminant, fields: fields(&v.fields) }).collect(),
            discr_size: e.discriminant_size,
            explicit_repr: false,
            size: None,
            align: None,
        },
        Schema::Primitive(p) => prim(p),
        Schema::Vector(i, l) => RSchema::Vector(Box::new(conv(i)), *l as u8),
        Schema::Array(a) => RSchema::Array(a.count as u64, Box::new(conv(&a.item_type))),
        Schema::SchemaOption(i) => RSchema::Option(Box::new(conv(i))),
        Schema::Undefined => RSchema::Undefined,
        Schema::ZeroSize => RSchema::ZeroSize,
        Schema::Custom(c) => RSchema::Custom(c.clone()),
        Schema::Boxed(i) => RSchema::Boxed(Box::new(conv(i))),
        Schema::Slice(i) => RSchema::Slice(Box::new(conv(i))),
        Schema::Str => RSchema::Str,
        Schema::Reference(i) => RSchema::Reference(Box::new(conv(i))),
        Schema::Trait(m, t) => RSchema::Trait(*m, traitdef(t)),
        Schema::FnClosure(m, t) => RSchema::FnClosure(*m, traitdef(t)),
        Schema::Recursion(d) => RSchema::Recursion(*d as u64),
        Schema::StdIoError => RSchema::StdIoError,
        Schema::Future(t, a, b, c) => RSchema::Future(traitdef(t), *a, *b, *c),
        Schema::UninitSlice => RSchema::UninitSlice,
        Schema::UtcTimestamp => RSchema::UtcTimestamp,
        _ => RSchema::Undefined,
    }
}
