//! Instrumented Read / Write for fault injection and chunking schedules (C07, C08).
use std::io::{Error, ErrorKind, Read, Write};

#[derive(Clone, Debug, PartialEq, Eq)]
pub enum Step {
    /// transfer at most n bytes (n >= 1)
    Chunk(usize),
    /// return ErrorKind::Interrupted once
    Interrupted,
}

#[derive(Clone, Debug)]
pub struct Schedule {
    pub steps: Vec<Step>,
    /// chunk size used when the schedule is exhausted
    pub tail_chunk: usize,
}
impl Schedule {
    pub fn whole() -> Schedule {
        Schedule { steps: vec![], tail_chunk: usize::MAX }
    }
}

pub struct FaultWriter {
    pub accepted: Vec<u8>,
    /// fail (with `kind`) when the total accepted byte count would exceed this offset
    pub fail_at: Option<usize>,
    pub kind: ErrorKind,
    pub sched: Schedule,
    pub pos: usize,
    pub flush_fails: bool,
    pub write_calls: usize,
    pub flush_calls: usize,
    pub failed: bool,
    pub calls_after_failure: usize,
}
impl FaultWriter {
    pub fn new(fail_at: Option<usize>, kind: ErrorKind, sched: Schedule) -> FaultWriter {
        FaultWriter { accepted: vec![], fail_at, kind, sched, pos: 0, flush_fails: false, write_calls: 0, flush_calls: 0, failed: false, calls_after_failure: 0 }
    }
}
impl Write for FaultWriter {
    fn write(&mut self, buf: &[u8]) -> std::io::Result<usize> {
        self.write_calls += 1;
        if self.failed {
            self.calls_after_failure += 1;
        }
        if buf.is_empty() {
            return Ok(0);
        }
        let step = if self.pos < self.sched.steps.len() {
            let s = self.sched.steps[self.pos].clone();
            self.pos += 1;
            s
        } else {
            Step::Chunk(self.sched.tail_chunk)
        };
        let n = match step {
            Step::Interrupted => return Err(Error::new(ErrorKind::Interrupted, "injected interrupt")),
            Step::Chunk(n) => n.max(1).min(buf.len()),
        };
        if let Some(limit) = self.fail_at {
            if self.accepted.len() >= limit {
                self.failed = true;
                return Err(Error::new(self.kind, "injected write fault"));
            }
            let n = n.min(limit - self.accepted.len());
            self.accepted.extend_from_slice(&buf[..n]);
            return Ok(n);
        }
        self.accepted.extend_from_slice(&buf[..n]);
        Ok(n)
    }
    fn flush(&mut self) -> std::io::Result<()> {
        self.flush_calls += 1;
        if self.flush_fails {
            self.failed = true;
            return Err(Error::new(self.kind, "injected flush fault"));
        }
        Ok(())
    }
}

pub struct FaultReader<'a> {
    pub data: &'a [u8],
    pub off: usize,
    pub fail_at: Option<usize>,
    pub kind: ErrorKind,
    pub sched: Schedule,
    pub pos: usize,
    pub read_calls: usize,
    pub fault_hit: bool,
}
impl<'a> FaultReader<'a> {
    pub fn new(data: &'a [u8], fail_at: Option<usize>, kind: ErrorKind, sched: Schedule) -> FaultReader<'a> {
        FaultReader { data, off: 0, fail_at, kind, sched, pos: 0, read_calls: 0, fault_hit: false }
    }
}
impl Read for FaultReader<'_> {
    fn read(&mut self, buf: &mut [u8]) -> std::io::Result<usize> {
        self.read_calls += 1;
        if buf.is_empty() {
            return Ok(0);
        }
        let step = if self.pos < self.sched.steps.len() {
            let s = self.sched.steps[self.pos].clone();
            self.pos += 1;
            s
        } else {
            Step::Chunk(self.sched.tail_chunk)
        };
        let n = match step {
            Step::Interrupted => return Err(Error::new(ErrorKind::Interrupted, "injected interrupt")),
            Step::Chunk(n) => n.max(1),
        };
        let mut n = n.min(buf.len()).min(self.data.len() - self.off);
        if let Some(limit) = self.fail_at {
            if self.off >= limit {
                self.fault_hit = true;
                return Err(Error::new(self.kind, "injected read fault"));
            }
            n = n.min(limit - self.off);
        }
        buf[..n].copy_from_slice(&self.data[self.off..self.off + n]);
        self.off += n;
        Ok(n)
    }
}
