//! Type-erased operations on a concrete root type, so that check binaries can drive
//! generated types through the real savefile API with dynamic values.
//!
//! To keep the compile time of generated batches low, the per-type generic code is minimal
//! (`Core`: serialize / deserialize / schema of T and of the bulk path types over a
//! `dyn Write` / `dyn Read`), and the container entry points of the library
//! (`save`, `save_noschema`, `save_compressed`, `load`, ... ) are instantiated once with the
//! delegating types `ErasedSave` / `ErasedLoad`, whose trait impls forward to the `Core` of
//! the type under test with the library's own Serializer/Deserializer state.

use crate::dynglue::Dyn;
use savefile::prelude::*;
use savefile::{CryptoReader, CryptoWriter, SavefileError, WithSchemaContext};
use std::cell::Cell;
use std::io::{Read, Write};
use std::marker::PhantomData;
use std::panic::{catch_unwind, AssertUnwindSafe};
use vcore::dv::DV;

pub const KEY: [u8; 32] = [7u8; 32];

#[derive(Clone, Copy, Debug, PartialEq, Eq, Hash, PartialOrd, Ord)]
pub enum Container {
    Plain,
    NoSchema,
    Compressed,
    Bare,
    CryptoMem,
}
pub const ALL_CONTAINERS: [Container; 5] = [Container::Plain, Container::NoSchema, Container::Compressed, Container::Bare, Container::CryptoMem];

#[derive(Clone, Copy, Debug, PartialEq, Eq, Hash, PartialOrd, Ord)]
pub enum PathK {
    Single,
    Vec,
    Arr3,
    BoxSlice,
    ArcSlice,
    ArrayVec4,
    /// `&[T]` (serialize only; read back as Vec<T>)
    Slice,
}
pub const BULK_PATHS: [PathK; 6] = [PathK::Vec, PathK::Arr3, PathK::BoxSlice, PathK::ArcSlice, PathK::ArrayVec4, PathK::Slice];

#[derive(Clone, Debug, PartialEq, Eq)]
pub struct ErrInfo {
    /// variant name of SavefileError
    pub kind: String,
    pub msg: String,
}

#[derive(Clone, Debug, PartialEq, Eq)]
pub enum Out<T> {
    Ok(T),
    Err(ErrInfo),
    Panic(String),
}

impl<T> Out<T> {
    pub fn is_ok(&self) -> bool {
        matches!(self, Out::Ok(_))
    }
    pub fn class(&self) -> &'static str {
        match self {
            Out::Ok(_) => "ok",
            Out::Err(_) => "err",
            Out::Panic(_) => "panic",
        }
    }
    pub fn describe(&self) -> String {
        match self {
            Out::Ok(_) => "Ok".into(),
            Out::Err(e) => format!("Err({}: {})", e.kind, e.msg),
            Out::Panic(m) => format!("PANIC({})", m),
        }
    }
    pub fn map<U>(self, f: impl FnOnce(T) -> U) -> Out<U> {
        match self {
            Out::Ok(x) => Out::Ok(f(x)),
            Out::Err(e) => Out::Err(e),
            Out::Panic(p) => Out::Panic(p),
        }
    }
    pub fn ok(self) -> Option<T> {
        match self {
            Out::Ok(x) => Some(x),
            _ => None,
        }
    }
}

pub fn err_info(e: &SavefileError) -> ErrInfo {
    let dbg = format!("{:?}", e);
    let kind: String = dbg.chars().take_while(|c| c.is_alphanumeric() || *c == '_').collect();
    ErrInfo { kind, msg: format!("{}", e).chars().take(300).collect() }
}

pub fn panic_msg(p: Box<dyn std::any::Any + Send>) -> String {
    if let Some(s) = p.downcast_ref::<&str>() {
        s.to_string()
    } else if let Some(s) = p.downcast_ref::<String>() {
        s.clone()
    } else {
        "<non-string panic payload>".to_string()
    }
}

/// Run a fallible savefile operation, capturing panics.
pub fn guard<T>(f: impl FnOnce() -> Result<T, SavefileError>) -> Out<T> {
    let prev = IN_GUARD.with(|g| g.replace(true));
    let r = catch_unwind(AssertUnwindSafe(f));
    IN_GUARD.with(|g| g.set(prev));
    match r {
        Ok(Ok(x)) => Out::Ok(x),
        Ok(Err(e)) => Out::Err(err_info(&e)),
        Err(p) => Out::Panic(panic_msg(p).chars().take(300).collect()),
    }
}

thread_local! {
    static IN_GUARD: Cell<bool> = Cell::new(false);
}

/// Panics of the code under test (inside `guard`) are captured as data and not printed;
/// panics of the harness itself are printed (one line) so they can be diagnosed.
pub fn quiet_panics() {
    std::panic::set_hook(Box::new(|info| {
        if !IN_GUARD.with(|g| g.get()) {
            eprintln!("HARNESS PANIC: {}", info);
        }
    }));
}

pub type DynSer<'a, 'b> = Serializer<'a, &'b mut dyn Write>;
pub type DynDe<'a, 'b> = Deserializer<'a, &'b mut dyn Read>;

/// The per-type generic part. Everything else is non-generic.
pub trait Core: Send + Sync {
    fn type_name(&self) -> &'static str;
    fn size_of(&self) -> usize;
    fn align_of(&self) -> usize;
    fn packed(&self, v: u32) -> bool;
    fn normalize(&self, dv: &DV) -> DV;
    fn mem_image(&self, dv: &DV) -> Vec<u8>;
    fn schema_of(&self, p: PathK, v: u32, ctx: &mut WithSchemaContext) -> Schema;
    fn ser(&self, p: PathK, vals: &[DV], s: &mut DynSer) -> Result<(), SavefileError>;
    fn de(&self, p: PathK, d: &mut DynDe) -> Result<Vec<DV>, SavefileError>;
}

pub struct Ops<T>(PhantomData<fn() -> T>);

pub fn mk<T>() -> Box<dyn TypeOps>
where
    T: Dyn + WithSchema + Serialize + Deserialize + Packed + 'static,
{
    Box::new(Erased { core: Box::new(Ops::<T>(PhantomData)) })
}

fn dyns<'a, T: Dyn + 'a>(it: impl Iterator<Item = &'a T>) -> Vec<DV> {
    it.map(|x| x.to_dyn()).collect()
}

impl<T> Core for Ops<T>
where
    T: Dyn + WithSchema + Serialize + Deserialize + Packed + 'static,
{
    fn type_name(&self) -> &'static str {
        std::any::type_name::<T>()
    }
    fn size_of(&self) -> usize {
        std::mem::size_of::<T>()
    }
    fn align_of(&self) -> usize {
        std::mem::align_of::<T>()
    }
    fn packed(&self, v: u32) -> bool {
        unsafe { T::repr_c_optimization_safe(v).is_yes() }
    }
    fn normalize(&self, dv: &DV) -> DV {
        T::from_dyn(dv).to_dyn()
    }
    fn mem_image(&self, dv: &DV) -> Vec<u8> {
        let val = T::from_dyn(dv);
        let n = std::mem::size_of::<T>();
        let p = &val as *const T as *const u8;
        let mut out = Vec::with_capacity(n);
        for i in 0..n {
            // volatile byte reads: the image may contain padding
            out.push(unsafe { std::ptr::read_volatile(p.add(i)) });
        }
        out
    }
    fn schema_of(&self, p: PathK, v: u32, ctx: &mut WithSchemaContext) -> Schema {
        match p {
            PathK::Single => T::schema(v, ctx),
            PathK::Vec => <Vec<T>>::schema(v, ctx),
            PathK::Arr3 => <[T; 3]>::schema(v, ctx),
            PathK::BoxSlice => <Box<[T]>>::schema(v, ctx),
            PathK::ArcSlice => <std::sync::Arc<[T]>>::schema(v, ctx),
            PathK::ArrayVec4 => <arrayvec::ArrayVec<T, 4>>::schema(v, ctx),
            PathK::Slice => <&[T]>::schema(v, ctx),
        }
    }
    fn ser(&self, p: PathK, vals: &[DV], s: &mut DynSer) -> Result<(), SavefileError> {
        let mut items: Vec<T> = vals.iter().map(|d| T::from_dyn(d)).collect();
        match p {
            PathK::Single => items[0].serialize(s),
            PathK::Vec => items.serialize(s),
            PathK::Arr3 => {
                let c3 = items.pop().unwrap();
                let c2 = items.pop().unwrap();
                let c1 = items.pop().unwrap();
                [c1, c2, c3].serialize(s)
            }
            PathK::BoxSlice => items.into_boxed_slice().serialize(s),
            PathK::ArcSlice => {
                let a: std::sync::Arc<[T]> = items.into();
                a.serialize(s)
            }
            PathK::ArrayVec4 => {
                let a: arrayvec::ArrayVec<T, 4> = items.into_iter().collect();
                a.serialize(s)
            }
            PathK::Slice => {
                let sl: &[T] = &items[..];
                sl.serialize(s)
            }
        }
    }
    fn de(&self, p: PathK, d: &mut DynDe) -> Result<Vec<DV>, SavefileError> {
        Ok(match p {
            PathK::Single => vec![T::deserialize(d)?.to_dyn()],
            PathK::Vec | PathK::Slice => dyns(<Vec<T>>::deserialize(d)?.iter()),
            PathK::Arr3 => dyns(<[T; 3]>::deserialize(d)?.iter()),
            PathK::BoxSlice => dyns(<Box<[T]>>::deserialize(d)?.iter()),
            PathK::ArcSlice => dyns(<std::sync::Arc<[T]>>::deserialize(d)?.iter()),
            PathK::ArrayVec4 => dyns(<arrayvec::ArrayVec<T, 4>>::deserialize(d)?.iter()),
        })
    }
}

// ---------------------------------------------------------------------------------------------
// Delegating types handed to the library's generic entry points.

pub struct ErasedSave<'a> {
    core: &'a dyn Core,
    path: PathK,
    vals: &'a [DV],
}

thread_local! {
    static CUR: Cell<Option<(*const dyn Core, PathK)>> = Cell::new(None);
}

fn with_cur<R>(core: &dyn Core, p: PathK, f: impl FnOnce() -> R) -> R {
    struct Reset(Option<(*const dyn Core, PathK)>);
    impl Drop for Reset {
        fn drop(&mut self) {
            CUR.with(|c| c.set(self.0));
        }
    }
    // SAFETY: the pointer is only dereferenced while `core` is borrowed (inside f)
    let ptr: *const dyn Core = unsafe { std::mem::transmute::<&dyn Core, &'static dyn Core>(core) };
    let _reset = Reset(CUR.with(|c| c.replace(Some((ptr, p)))));
    f()
}
fn cur() -> (&'static dyn Core, PathK) {
    let (p, k) = CUR.with(|c| c.get()).expect("no current core");
    (unsafe { &*p }, k)
}

impl WithSchema for ErasedSave<'_> {
    fn schema(version: u32, context: &mut WithSchemaContext) -> Schema {
        let (core, p) = cur();
        core.schema_of(p, version, context)
    }
}
impl Packed for ErasedSave<'_> {}
impl Serialize for ErasedSave<'_> {
    fn serialize(&self, serializer: &mut Serializer<impl Write>) -> Result<(), SavefileError> {
        let mut w: &mut dyn Write = serializer.writer;
        let mut s2 = Serializer { writer: &mut w, file_version: serializer.file_version };
        self.core.ser(self.path, self.vals, &mut s2)
    }
}

pub struct ErasedLoad(pub Vec<DV>);
impl WithSchema for ErasedLoad {
    fn schema(version: u32, context: &mut WithSchemaContext) -> Schema {
        let (core, p) = cur();
        core.schema_of(p, version, context)
    }
}
impl Packed for ErasedLoad {}
impl Deserialize for ErasedLoad {
    fn deserialize(deserializer: &mut Deserializer<impl Read>) -> Result<Self, SavefileError> {
        let (core, p) = cur();
        let mut r: &mut dyn Read = deserializer.reader;
        let state = std::mem::take(&mut deserializer.ephemeral_state);
        let mut d2 = Deserializer { reader: &mut r, file_version: deserializer.file_version, ephemeral_state: state };
        let res = core.de(p, &mut d2);
        deserializer.ephemeral_state = d2.ephemeral_state;
        Ok(ErasedLoad(res?))
    }
}

pub fn write_val<V: Serialize + WithSchema>(c: Container, v: u32, val: &V, mut w: &mut dyn Write) -> Result<(), SavefileError> {
    match c {
        Container::Plain => savefile::save(&mut w, v, val),
        Container::NoSchema => savefile::save_noschema(&mut w, v, val),
        Container::Compressed => savefile::save_compressed(&mut w, v, val),
        Container::Bare => Serializer::bare_serialize(&mut w, v, val),
        Container::CryptoMem => {
            let mut cw = CryptoWriter::new(&mut w, KEY)?;
            savefile::save(&mut cw, v, val)?;
            cw.flush_final()
        }
    }
}

pub fn read_val<V: Deserialize + WithSchema>(c: Container, v: u32, mut r: &mut dyn Read) -> Result<V, SavefileError> {
    match c {
        Container::Plain | Container::Compressed => savefile::load::<V>(&mut r, v),
        Container::NoSchema => savefile::load_noschema::<V>(&mut r, v),
        Container::Bare => Deserializer::bare_deserialize::<V>(&mut r, v),
        Container::CryptoMem => {
            let mut cr = CryptoReader::new(&mut r, KEY)?;
            savefile::load::<V>(&mut cr, v)
        }
    }
}

pub trait TypeOps: Send + Sync {
    fn core(&self) -> &dyn Core;
    fn type_name(&self) -> &'static str {
        self.core().type_name()
    }
    fn size_of(&self) -> usize {
        self.core().size_of()
    }
    fn align_of(&self) -> usize {
        self.core().align_of()
    }
    fn packed(&self, v: u32) -> bool {
        self.core().packed(v)
    }
    fn schema(&self, v: u32) -> Out<savefile::Schema> {
        guard(|| Ok(self.core().schema_of(PathK::Single, v, &mut WithSchemaContext::new())))
    }
    fn schema_path(&self, p: PathK, v: u32) -> Out<savefile::Schema> {
        guard(|| Ok(self.core().schema_of(p, v, &mut WithSchemaContext::new())))
    }
    /// to_dyn(from_dyn(x)): the value as the real type represents it (sets dedup, etc.)
    fn normalize(&self, dv: &DV) -> DV {
        self.core().normalize(dv)
    }
    /// save `vals` (one value for Single, the elements for bulk paths) into w
    fn write(&self, c: Container, p: PathK, v: u32, vals: &[DV], w: &mut dyn Write) -> Out<()> {
        let core = self.core();
        guard(|| with_cur(core, p, || write_val(c, v, &ErasedSave { core, path: p, vals }, w)))
    }
    /// load; `v` is the program's version (for Bare: the version of the data)
    fn read(&self, c: Container, p: PathK, v: u32, r: &mut dyn Read) -> Out<Vec<DV>> {
        let core = self.core();
        guard(|| with_cur(core, p, || read_val::<ErasedLoad>(c, v, r).map(|x| x.0)))
    }
    /// raw memory image of a value (only meaningful when the type claims to be packed)
    fn mem_image(&self, dv: &DV) -> Vec<u8> {
        self.core().mem_image(dv)
    }
    fn write_vec(&self, c: Container, p: PathK, v: u32, vals: &[DV]) -> Out<Vec<u8>> {
        let mut buf = Vec::new();
        self.write(c, p, v, vals, &mut buf).map(|_| buf)
    }
    /// load from a slice; returns values and number of bytes consumed
    fn read_slice(&self, c: Container, p: PathK, v: u32, data: &[u8]) -> Out<(Vec<DV>, usize)> {
        let mut cur = std::io::Cursor::new(data);
        let r = self.read(c, p, v, &mut cur);
        let pos = cur.position() as usize;
        r.map(|x| (x, pos))
    }
}

pub struct Erased {
    core: Box<dyn Core>,
}

/// Writer adapter that flushes the inner writer every `every` bytes (forces several
/// encrypted chunks when used on top of a CryptoWriter).
pub struct FlushEvery<'a> {
    pub inner: &'a mut dyn Write,
    pub every: usize,
    pub since: usize,
}
impl Write for FlushEvery<'_> {
    fn write(&mut self, buf: &[u8]) -> std::io::Result<usize> {
        if buf.is_empty() {
            return Ok(0);
        }
        let every = self.every.max(1);
        let room = every - self.since; // invariant: since < every
        let n = buf.len().min(room);
        let w = self.inner.write(&buf[..n])?;
        self.since += w;
        if self.since >= every {
            self.inner.flush()?;
            self.since = 0;
        }
        Ok(w)
    }
    fn flush(&mut self) -> std::io::Result<()> {
        self.inner.flush()
    }
}

/// CryptoWriter over `w` with a flush every `every` plaintext bytes (several chunks)
pub fn write_crypto_chunked(ops: &dyn TypeOps, p: PathK, v: u32, vals: &[DV], w: &mut dyn Write, every: usize, key: [u8; 32]) -> Out<()> {
    let core = ops.core();
    guard(|| {
        with_cur(core, p, || {
            let mut w = w;
            let mut cw = CryptoWriter::new(&mut w, key)?;
            {
                let mut fe = FlushEvery { inner: &mut cw, every, since: 0 };
                savefile::save(&mut fe, v, &ErasedSave { core, path: p, vals })?;
            }
            cw.flush_final()
        })
    })
}
pub fn read_crypto(ops: &dyn TypeOps, p: PathK, v: u32, r: &mut dyn Read, key: [u8; 32]) -> Out<Vec<DV>> {
    let core = ops.core();
    guard(|| {
        with_cur(core, p, || {
            let mut r = r;
            let mut cr = CryptoReader::new(&mut r, key)?;
            savefile::load::<ErasedLoad>(&mut cr, v).map(|x| x.0)
        })
    })
}

/// save_encrypted_file / load_encrypted_file of the value(s) through the erased types
pub fn write_encrypted_file(ops: &dyn TypeOps, p: PathK, v: u32, vals: &[DV], path: &std::path::Path, password: &str) -> Out<()> {
    let core = ops.core();
    guard(|| with_cur(core, p, || savefile::save_encrypted_file(path, v, &ErasedSave { core, path: p, vals }, password)))
}
pub fn read_encrypted_file(ops: &dyn TypeOps, p: PathK, v: u32, path: &std::path::Path, password: &str) -> Out<Vec<DV>> {
    let core = ops.core();
    guard(|| with_cur(core, p, || savefile::load_encrypted_file::<ErasedLoad, _>(path, v, password).map(|x| x.0)))
}
impl TypeOps for Erased {
    fn core(&self) -> &dyn Core {
        &*self.core
    }
}
