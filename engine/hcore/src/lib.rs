//! hcore: glue between the savefile crate under test and the savefile-independent vcore.
pub mod dynglue;
pub mod faultio;
pub mod intro;
pub mod ops;
pub mod runner;
pub mod schema_conv;
pub use serde_json;
pub use vcore;
