//! C09 transparency, C10 version tolerance, C15 compatibility ledger, C16 concurrency.
//! One binary, selected by --prop; all run over the generated interface families of gen_abi.

use abigen::script::PanicKind;
use checks_abi::*;
use hcore::runner::*;
use serde_json::json;
use std::time::Instant;

fn main() {
    let started = Instant::now();
    let args = parse_args();
    abirt::quiet_panics();
    let w = std::sync::Arc::new(load_world());
    if w.batch.seed != args.seed && args.replay.is_none() {
        eprintln!("INCONCLUSIVE: gen_abi was generated for seed {} but the check runs with seed {} (run abigen --seed {} and rebuild)", w.batch.seed, args.seed, args.seed);
        std::process::exit(2);
    }
    if let Some(path) = &args.replay {
        std::process::exit(replay(&args, &w, path));
    }
    match args.prop.as_str() {
        "C09" => c09_main(&args, &w, started),
        "C10" => c10_main(&args, &w, started),
        "C15" => c15_main(&args, &w, started),
        "C16" => c16_main(&args, &w, started),
        other => {
            eprintln!("unknown property {:?}", other);
            std::process::exit(2);
        }
    }
}

fn replay(args: &Args, w: &World, path: &str) -> i32 {
    let body: serde_json::Value = match std::fs::read_to_string(path).ok().and_then(|s| serde_json::from_str(&s).ok()) {
        Some(v) => v,
        None => {
            eprintln!("cannot read replay file {}", path);
            return 2;
        }
    };
    let seed = body["seed"].as_u64().unwrap_or(0);
    if seed != w.batch.seed {
        eprintln!("INCONCLUSIVE: replay file was recorded with seed {}, gen_abi is generated for seed {}", seed, w.batch.seed);
        return 2;
    }
    let case = &body["case"];
    let find = |fname: &str, module: &str| -> Option<(usize, usize)> {
        let fi = w.fams.iter().position(|f| f.name == fname)?;
        let ri = w.fams[fi].revs.iter().position(|r| r.module == module)?;
        Some((fi, ri))
    };
    let mut st = Stats::default();
    let fails = match case["kind"].as_str().unwrap_or("") {
        "C09" => {
            let Some((fi, ri)) = find(case["family"].as_str().unwrap_or(""), case["revision"].as_str().unwrap_or("")) else { return 2 };
            let ops: Vec<c09::Op> = serde_json::from_value(case["ops"].clone()).expect("ops");
            {
                let case = c09::Case { fam: &w.fams[fi], rev: ri, drv: &*w.drivers[fi][ri], sample: false };
                let mut srv = c09::server(&case);
                c09::eval(&case, &mut srv, &ops, &mut st, false)
            }
        }
        "C10" => {
            let fname = case["family"].as_str().unwrap_or("");
            let (Some((fi, ci)), Some((_, ii))) = (find(fname, case["caller"].as_str().unwrap_or("")), find(fname, case["implementation"].as_str().unwrap_or(""))) else { return 2 };
            let spec: abigen::script::CallSpec = serde_json::from_value(case["spec"].clone()).expect("spec");
            let pair = c10::Pair { fam: &w.fams[fi], caller: ci, imp: ii, drv: &*w.drivers[fi][ci] };
            let mut srv = c10::server(&pair);
            c10::eval(&pair, &mut srv, &spec, &mut st, false)
        }
        "C15" => {
            let fname = case["family"].as_str().unwrap_or("");
            let Some(fi) = w.fams.iter().position(|f| f.name == fname) else { return 2 };
            let seq: c15::Seq = serde_json::from_value(case["seq"].clone()).expect("seq");
            c15::eval(&w.fams[fi], &w.drivers[fi], &seq, &mut st, false)
        }
        "C16" => {
            let case: c16::Case = serde_json::from_value(case["c16case"].clone()).expect("case");
            let mut r = c16::Runner { w, durations_ms: vec![] };
            r.eval(&case, &mut st, false)
        }
        "C16-markers" => {
            let Some((fi, ri)) = find(case["family"].as_str().unwrap_or(""), case["revision"].as_str().unwrap_or("")) else { return 2 };
            let fam = &w.fams[fi];
            let (is_send, is_sync) = w.drivers[fi][ri].connection_markers();
            let mut out = vec![];
            if is_send && !(fam.send_sync || fam.send_only) {
                out.push(fail(&[("check", "connection_marker_beyond_interface_bounds"), ("marker", "Send")], "connection is Send".into(), json!(null)));
            }
            if is_sync && !fam.send_sync {
                out.push(fail(&[("check", "connection_marker_beyond_interface_bounds"), ("marker", "Sync")], "connection is Sync".into(), json!(null)));
            }
            out
        }
        "C10-creation" => {
            let fname = case["family"].as_str().unwrap_or("");
            let Some(fi) = w.fams.iter().position(|f| f.name == fname) else { return 2 };
            c10::creation_cases(w, fi, &mut st);
            let want = (case["caller"].clone(), case["implementation"].clone());
            st.violations.iter().filter(|v| (v.replay["caller"].clone(), v.replay["implementation"].clone()) == want).map(|v| Fail { sig: v.signature.clone(), detail: v.replay["failure"].as_str().unwrap_or("").to_string(), extra: json!(null) }).collect()
        }
        k => {
            eprintln!("unknown replay kind {:?} for {}", k, args.prop);
            return 2;
        }
    };
    if fails.is_empty() {
        println!("replay: no oracle failed");
        0
    } else {
        for f in &fails {
            println!("replay: FAIL {:?}: {}", f.sig, f.detail);
        }
        1
    }
}

fn nworkers() -> usize {
    std::thread::available_parallelism().map(|n| n.get()).unwrap_or(8).min(16)
}

fn c09_main(args: &Args, w: &World, started: Instant) {
    let cases = 600 * tier_mul(args);
    let probe_cases = 12 * tier_mul(args);
    if args.worker.is_some() {
        let mut shard = Shard::new(args);
        for (fi, fam) in w.fams.iter().enumerate() {
            for ri in 0..fam.revs.len() {
                let kinds: [Option<PanicKind>; 4] = [None, Some(PanicKind::Literal), Some(PanicKind::Formatted), Some(PanicKind::NonString)];
                for fp in kinds {
                    let unit = format!("{}:{}", fam.path(ri), fp.map(|k| k.label()).unwrap_or("program"));
                    if !shard.take(&unit) {
                        continue;
                    }
                    let mut st = Stats::default();
                    let case = c09::Case { fam, rev: ri, drv: &*w.drivers[fi][ri], sample: fp.is_none() && ri == fam.revs.len() - 1 };
                    let strat = c09::program_strategy(fam, ri, fp);
                    let seed = vcore::rng::fnv64(format!("{}/C09/{}", args.seed, unit).as_bytes());
                    let mut srv = c09::server(&case);
                    run_unit(
                        seed,
                        if fp.is_some() { probe_cases } else { cases },
                        &strat,
                        &mut st,
                        |ops, st, counting| c09::eval(&case, &mut srv, ops, st, counting),
                        |ops, f| c09::replay_value(fam, ri, ops, f),
                        5,
                    );
                    worker_emit(&st);
                }
            }
        }
        shard.done();
        return;
    }
    let stats = run_workers(args, nworkers(), &[]);
    let rep = Report {
        args,
        level: "exploration",
        rule: "case = call program (1..8 ops: connect, call a method with generated arguments and scripts for the implementation / the caller's closures and objects, drop) over one generated interface revision, executed on Box<dyn Trait> directly and through AbiConnection::from_boxed_trait; oracle: identical return values, identical complete event logs (arguments observed by the implementation, callback results, closure and trait-object invocations at the caller, returned closures/objects, futures), every owned object dropped exactly once, a scripted panic (literal / formatted / non-string payload) reaches the caller as a panic containing the scripted text, the process survives and the repeated call succeeds; non-trivial call = at least one non-primitive argument, callback, trait object or non-data return; distinct by hash(interface, method, argument shape classes, by-reference mask, argument-buffer class, panic kind)",
        assumptions: vec![
            "caller and implementation live in one process image compiled by one compiler (no cdylib, so &T arguments of identical layout travel as pointers; the serialized path for references is only reached through version differences in C10)".into(),
            "programs are single-threaded (concurrency is C16)".into(),
        ],
        extra_coverage: {
            let mut c = gen_coverage(w);
            c["cases_per_interface_revision"] = json!(cases);
            c["panic_probe_cases_per_kind"] = json!(probe_cases);
            c
        },
        exhaustive: false,
    };
    std::process::exit(finish(rep, stats, started));
}

fn c10_main(args: &Args, w: &World, started: Instant) {
    use abigen::strat::{call_spec, CallOpts};
    use proptest::strategy::Strategy;
    let cases = 400 * tier_mul(args);
    if args.worker.is_some() {
        let mut shard = Shard::new(args);
        for (fi, fam) in w.fams.iter().enumerate() {
            if shard.take(&format!("{}:creation", fam.module)) {
                let mut st = Stats::default();
                c10::creation_cases(w, fi, &mut st);
                worker_emit(&st);
            }
            let compat = fam.compat_revs();
            for &i in &compat {
                for &j in &compat {
                    if i == j {
                        continue;
                    }
                    let unit = format!("{}:{}->{}", fam.module, fam.revs[i].module, fam.revs[j].module);
                    if !shard.take(&unit) {
                        continue;
                    }
                    let mut st = Stats::default();
                    let pair = c10::Pair { fam, caller: i, imp: j, drv: &*w.drivers[fi][i] };
                    let o = CallOpts { panic_rate: 0, force_panic: None };
                    let strat = proptest::strategy::Union::new(fam.revs[i].methods.iter().map(|m| call_spec(fam, i, j, &m.name, o)).collect::<Vec<_>>()).boxed();
                    let seed = vcore::rng::fnv64(format!("{}/C10/{}", args.seed, unit).as_bytes());
                    let mut srv = c10::server(&pair);
                    run_unit(seed, cases, &strat, &mut st, |spec, st, counting| c10::eval(&pair, &mut srv, spec, st, counting), |spec, f| c10::replay_value(&pair, spec, f), 8);
                    st.class_n("harness.child_processes_forked", srv.forks);
                    worker_emit(&st);
                }
            }
        }
        shard.done();
        return;
    }
    let stats = run_workers(args, nworkers(), &[]);
    let rep = Report {
        args,
        level: "exploration",
        rule: "case = one call (generated arguments, scripted return value, scripted closure invocations) on AbiConnection<dyn Trait_i> wired to an implementation of Trait_j with from_boxed_trait_for_test, for every ordered pair i != j of the compatible revisions of every generated family; oracle: implementation observes model(arg, i->j), caller receives model(ret, j->i), closure arguments/results likewise, where model = upgrade(downgrade(x, sender->min(i,j)), min(i,j)->receiver) from the documented versioning rules; a method missing from the implementation panics naming the method; plus the enumeration of all ordered pairs involving a labelled breaking revision: creation must fail iff the effective definitions of the shared methods differ; non-trivial = i != j and the transmitted type's fields differ between i and j, counted separately for the argument direction, the return direction and closures (classes nontrivial.*); distinct by hash(family, i, j, method, direction, values)",
        assumptions: vec![
            "values only use enum variants that exist at min(i,j): a variant unknown to the receiver cannot be transmitted (documented; asserted by the repo's own tests)".into(),
            "both revisions are compiled into one process image (as in the repo's version tests), so only definition differences, not compiler differences, distinguish the sides".into(),
        ],
        extra_coverage: {
            let mut c = gen_coverage(w);
            c["cases_per_ordered_pair"] = json!(cases);
            c["ordered_compatible_pairs"] = json!(w.fams.iter().map(|f| { let n = f.compat_revs().len(); n * n.saturating_sub(1) }).sum::<usize>());
            c
        },
        exhaustive: false,
    };
    std::process::exit(finish(rep, stats, started));
}

fn c15_main(args: &Args, w: &World, started: Instant) {
    let cases = 120 * tier_mul(args);
    if args.worker.is_some() {
        let mut shard = Shard::new(args);
        for (fi, fam) in w.fams.iter().enumerate() {
            let unit = format!("{}:ledger", fam.module);
            if !shard.take(&unit) {
                continue;
            }
            let mut st = Stats::default();
            let strat = c15::seq_strategy(fam);
            let seed = vcore::rng::fnv64(format!("{}/C15/{}", args.seed, unit).as_bytes());
            run_unit(seed, cases, &strat, &mut st, |seq, st, counting| c15::eval(fam, &w.drivers[fi], seq, st, counting), |seq, f| c15::replay_value(fam, seq, f), 6);
            worker_emit(&st);
        }
        shard.done();
        return;
    }
    let stats = run_workers(args, nworkers(), &[]);
    let rep = Report {
        args,
        level: "exploration",
        rule: "case = run sequence (1..7 runs: repeat the current revision, advance to the next compatible revision, run a labelled breaking revision, go back to the previous revision) of savefile_abi::verify_compatiblity::<dyn Trait_r> over a fresh temporary directory that starts empty or pre-populated with the files of one revision; model = map version -> definition (method names, async flag, argument and return wire signatures at that version) recorded at first sight; oracle after every run: Ok iff the revision is backward compatible with every recorded version (new methods allowed; removed method, changed argument count, changed argument or return type not), files present == one per version seen, re-running an unchanged accepted revision is Ok; non-trivial = at least 2 runs with a repeat or a change of revision; distinct by hash(family, start, steps)",
        assumptions: vec!["what a failing run leaves in the directory is not specified; the model adopts the files it finds after a rejected run".into()],
        extra_coverage: {
            let mut c = gen_coverage(w);
            c["sequences_per_family"] = json!(cases);
            c
        },
        exhaustive: false,
    };
    std::process::exit(finish(rep, stats, started));
}

fn c16_main(args: &Args, w: &std::sync::Arc<World>, started: Instant) {
    let chunks = 16usize;
    let cases = 20 * tier_mul(args);
    if args.worker.is_some() {
        let mut shard = Shard::new(args);
        if shard.take("marker_traits") {
            // which interfaces' connections the library allows to be moved to / shared between
            // threads (exhaustive over the generated interface revisions, deterministic)
            let mut st = Stats::default();
            for (fi, fam) in w.fams.iter().enumerate() {
                for ri in 0..fam.revs.len() {
                    let (is_send, is_sync) = w.drivers[fi][ri].connection_markers();
                    st.evaluations += 1;
                    let declared = if fam.send_sync { "Send+Sync" } else if fam.send_only { "Send" } else { "none" };
                    st.class(&format!("markers.interface_{}.connection_{}{}", declared, if is_send { "Send" } else { "" }, if is_sync { "Sync" } else { "" }));
                    let declared_send = fam.send_sync || fam.send_only;
                    let declared_sync = fam.send_sync;
                    for (marker, has, declared_m) in [("Send", is_send, declared_send), ("Sync", is_sync, declared_sync)] {
                        if has && !declared_m {
                            st.violations.push(Violation {
                                signature: [("check", "connection_marker_beyond_interface_bounds"), ("marker", marker), ("interface_bounds", declared)]
                                    .iter()
                                    .map(|(k, v)| (k.to_string(), v.to_string()))
                                    .collect(),
                                replay: json!({"kind": "C16-markers", "family": fam.name, "revision": fam.revs[ri].module, "interface": render_rev(fam, ri),
                                    "failure": format!("AbiConnection<dyn {}> is {} although the interface only declares `{}`: safe code can then {} an implementation that never promised it (concurrent calls need not equal sequential ones)", fam.name, marker, declared, if marker == "Sync" { "call concurrently into" } else { "move to another thread" })}),
                            });
                        }
                    }
                    if fam.send_only || !declared_send {
                        st.nontrivial.insert(vcore::rng::fnv64(format!("{}/{}", fi, ri).as_bytes()));
                    }
                }
            }
            worker_emit(&st);
        }
        for k in 0..chunks {
            let unit = format!("schedules:chunk{}", k);
            if !shard.take(&unit) {
                continue;
            }
            let mut st = Stats::default();
            let strat = c16::case_strategy(w);
            let seed = vcore::rng::fnv64(format!("{}/C16/{}", args.seed, unit).as_bytes());
            let mut runner = c16::Runner { w, durations_ms: vec![] };
            run_unit(seed, cases, &strat, &mut st, |case, st, counting| runner.eval(case, st, counting), |case, f| c16::replay_value(w, case, f), 3);
            worker_emit(&st);
        }
        shard.done();
        return;
    }
    // fewer worker processes than cores: every case itself runs up to 16 threads
    let stats = run_workers(args, 4, &[]);
    let rep = Report {
        args,
        level: "exploration",
        rule: "case = (1..3 generated interfaces, N in {2,4,8,16} threads, a perturbation seed, one program per thread: blocks that create an AbiConnection for one of the interfaces (first use and cached) and issue 1..4 generated calls on it, or issue calls on a connection shared by all threads (Send + Sync interfaces); plus, exhaustively over all generated interface revisions, whether AbiConnection<dyn Trait> is Send / Sync only when the interface declares it (compile-time answer obtained at a monomorphic call site); calls include methods whose closure / trait-object arguments and returned closures make the callee create further connections); each case runs in two freshly forked processes (empty ABI caches): programs one after another (sequential model) and N real threads released together by a barrier, with seeded yield/sleep/spin inside implementation methods, closures and callback objects; oracle: every result (connection creation, returned value) equals the sequential run's, all threads finish, every owned object dropped once; a watchdog expiry (100 x median case time, at least 20 s) is examined through /proc (3 samples 1 s apart) and only a confirmed deadlock is a violation; non-trivial = at least two threads start by creating a connection for the same not yet cached interface; distinct by hash(case)",
        assumptions: vec![
            "LOW ASSURANCE: schedules are sampled by running real threads; absence of races or deadlocks is not established".into(),
            "the perturbation decisions come from the generated seed, but the operating system scheduler is not controlled: a concurrent failure may not reproduce on replay".into(),
            "no ThreadSanitizer build, no lock-site yield hook in savefile-abi".into(),
        ],
        extra_coverage: {
            let mut c = gen_coverage(w);
            c["cases"] = json!(cases as usize * chunks);
            c
        },
        exhaustive: false,
    };
    std::process::exit(finish(rep, stats, started));
}
