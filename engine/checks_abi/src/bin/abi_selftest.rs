//! Self-test of the process-isolation layer used by C10 / C16: round trip cost, classification
//! of the ways a child can die, and the deadlock confirmation of the C16 watchdog.
//!   abi_selftest            (exit 0 = all self-tests passed)
use checks_abi::iso::{Iso, Server};

fn main() {
    abirt::quiet_panics();
    let mut ok = true;
    // 1. round trip
    let mut srv: Server<u32, u32> = Server::new(5000, |x, _| x * 2);
    let t = std::time::Instant::now();
    for i in 0..200 {
        ok &= matches!(srv.call(&i), Iso::Done(x) if x == i * 2);
    }
    eprintln!("round trip: {:?} per request, {} fork(s)", t.elapsed() / 200, srv.forks);
    ok &= srv.forks == 1;
    // 2. deaths are reported, the server recovers
    let mut srv: Server<u32, u32> = Server::new(5000, |x, _| match x {
        1 => std::process::abort(),
        2 => {
            let v: Vec<u8> = Vec::with_capacity(1 << 45);
            v.len() as u32
        }
        3 => {
            extern "C" fn f() {
                panic!("boom");
            }
            f();
            0
        }
        _ => x,
    });
    for (req, want) in [(1u32, ""), (2, "memory allocation of"), (3, "unwind")] {
        match srv.call(&req) {
            Iso::Crashed { signal, stderr, .. } => {
                eprintln!("request {}: died with signal {} stderr {:?}", req, signal, stderr.lines().next().unwrap_or(""));
                ok &= signal == 6 && stderr.contains(want);
            }
            other => {
                eprintln!("request {}: unexpected {:?}", req, other);
                ok = false;
            }
        }
        ok &= matches!(srv.call(&7), Iso::Done(7));
    }
    // 3. a real two-lock deadlock is confirmed, a busy loop is not
    for busy in [false, true] {
        let mut srv: Server<(), u32> = Server::new(3000, move |_, _| {
            if busy {
                loop {
                    std::hint::spin_loop();
                }
            }
            let a = std::sync::Arc::new(std::sync::Mutex::new(0));
            let b = std::sync::Arc::new(std::sync::Mutex::new(0));
            let bar = std::sync::Arc::new(std::sync::Barrier::new(2));
            let (a2, b2, bar2) = (a.clone(), b.clone(), bar.clone());
            let h = std::thread::spawn(move || {
                let _g = a2.lock().unwrap();
                bar2.wait();
                let _h = b2.lock().unwrap();
            });
            let _g = b.lock().unwrap();
            bar.wait();
            let _h = a.lock().unwrap();
            h.join().unwrap();
            0
        });
        srv.on_timeout = Some(Box::new(checks_abi::c16::examine));
        let r = srv.call(&());
        let exam = srv.last_examination.take().unwrap_or_default();
        eprintln!("{}: {} / {}", if busy { "busy loop" } else { "deadlock" }, match r { Iso::TimedOut { .. } => "timed out", _ => "??" }, exam.lines().take(4).collect::<Vec<_>>().join(" | "));
        ok &= matches!(r, Iso::TimedOut { .. }) && exam.starts_with(if busy { "NOT_CONFIRMED" } else { "CONFIRMED_DEADLOCK" });
    }
    eprintln!("self-test {}", if ok { "passed" } else { "FAILED" });
    std::process::exit(if ok { 0 } else { 1 });
}
