//! Shared parts of the ABI property checks (C09, C10, C15, C16).

pub mod c09;
pub mod c10;
pub mod c15;
pub mod c16;
pub mod iso;

use abigen::ir::*;
use abirt::Driver;
use hcore::runner::*;
use proptest::strategy::Strategy;
use proptest::test_runner::{Config, RngSeed, TestCaseError, TestError, TestRunner};
use serde_json::{json, Value};
use std::cell::RefCell;
use std::collections::{BTreeMap, BTreeSet};
use std::sync::Arc;
use vcore::dv::DV;

pub struct World {
    pub batch: Batch,
    pub fams: Vec<Arc<Family>>,
    pub drivers: Vec<Vec<Box<dyn Driver>>>,
}

pub fn load_world() -> World {
    let batch: Batch = serde_json::from_str(gen_abi::IR_JSON).expect("families.json");
    let fams: Vec<Arc<Family>> = batch.families.iter().cloned().map(Arc::new).collect();
    let drivers = gen_abi::drivers();
    assert_eq!(drivers.len(), fams.len());
    for (f, d) in fams.iter().zip(drivers.iter()) {
        assert_eq!(f.revs.len(), d.len());
    }
    World { batch, fams, drivers }
}

#[derive(Clone, Debug)]
pub struct Fail {
    pub sig: BTreeMap<String, String>,
    pub detail: String,
    pub extra: Value,
}

pub fn fail(pairs: &[(&str, &str)], detail: String, extra: Value) -> Fail {
    Fail { sig: pairs.iter().map(|(k, v)| (k.to_string(), v.to_string())).collect(), detail, extra }
}

pub fn sig_key(sig: &BTreeMap<String, String>) -> String {
    serde_json::to_string(sig).unwrap()
}

pub fn tier_mul(args: &Args) -> u32 {
    if args.tier == "thorough" {
        8
    } else {
        1
    }
}

/// Run one unit: a proptest campaign over `strat` evaluated by `eval`, which returns *all*
/// oracle failures of a case. When a (shrunk) failure has been recorded, its signature is muted
/// and the campaign is run again, so that one defect does not hide what lies behind it
/// (at most `max_passes` passes). Statistics are counted per pass until the pass's first
/// failure (the closure re-runs during shrinking); the pass that got furthest is reported.
thread_local! {
    static PROGRESS: std::cell::Cell<u64> = std::cell::Cell::new(0);
}

pub fn run_unit<C: Clone + std::fmt::Debug>(
    seed: u64,
    cases: u32,
    strat: &impl Strategy<Value = C>,
    st: &mut Stats,
    mut eval: impl FnMut(&C, &mut Stats, bool) -> Vec<Fail>,
    mut replay_of: impl FnMut(&C, &Fail) -> Value,
    max_passes: usize,
) {
    let mut muted: BTreeSet<String> = BTreeSet::new();
    // statistics of the pass that got furthest (normally the last, complete one)
    let mut best = Stats::default();
    let unit_started = std::time::Instant::now();
    for pass in 0..max_passes {
        // Looking for *further* signatures behind already recorded failures is bounded in time;
        // this never turns a failure into a pass.
        if pass > 0 && unit_started.elapsed().as_secs() > 60 {
            st.notes.push(format!("unit stopped looking for further failure signatures after {} passes / {} s", pass, unit_started.elapsed().as_secs()));
            break;
        }
        let mut runner = TestRunner::new(Config {
            cases,
            rng_seed: RngSeed::Fixed(seed),
            failure_persistence: None,
            max_shrink_iters: 300,
            // a defect that makes every case slow (crash + re-fork, watchdog) must not stall the unit
            max_shrink_time: 25_000,
            ..Config::default()
        });
        let cell = RefCell::new((Stats::default(), false, &mut eval));
        let result = runner.run(strat, |case| {
            let mut g = cell.borrow_mut();
            let counting = !g.1;
            let (stats, failed, ev) = &mut *g;
            // progress line for the driver's watchdog (also during shrinking: with a defect that
            // makes cases slow, e.g. a deadlock that is confirmed by sampling, silence is not a hang)
            PROGRESS.with(|p| {
                p.set(p.get() + 1);
                announce_case(p.get());
            });
            let fails: Vec<Fail> = ev(&case, stats, counting).into_iter().filter(|f| !muted.contains(&sig_key(&f.sig))).collect();
            if fails.is_empty() {
                Ok(())
            } else {
                *failed = true;
                Err(TestCaseError::fail(sig_key(&fails[0].sig)))
            }
        });
        let (ps, _, _) = cell.into_inner();
        if ps.evaluations >= best.evaluations {
            best = ps;
        }
        match result {
            Ok(()) => break,
            Err(TestError::Fail(_, minimal)) => {
                let mut scratch = Stats::default();
                let fails: Vec<Fail> = eval(&minimal, &mut scratch, false).into_iter().filter(|f| !muted.contains(&sig_key(&f.sig))).collect();
                if let Some(f) = fails.first() {
                    muted.insert(sig_key(&f.sig));
                    if f.sig.get("check").map_or(false, |c| c.starts_with("HARNESS_")) {
                        // self-check of the harness failed: never a verdict about the library
                        st.inconclusive.push(format!("harness self-check {:?} failed: {} (case {:?})", f.sig, f.detail, minimal).chars().take(1500).collect());
                    } else {
                        st.violations.push(Violation { signature: f.sig.clone(), replay: replay_of(&minimal, f) });
                    }
                } else {
                    st.inconclusive.push(format!("a failure did not reproduce when the shrunk case was re-run (flaky): {:?}", minimal).chars().take(1500).collect());
                    break;
                }
            }
            Err(TestError::Abort(r)) => {
                st.inconclusive.push(format!("proptest abort: {}", r));
                break;
            }
        }
    }
    st.merge(best);
}

pub fn render_events(evs: &[abirt::Ev]) -> Vec<String> {
    evs.iter().take(40).map(|e| e.render()).collect()
}

pub fn dv_hash(dvs: &[DV]) -> u64 {
    vcore::rng::fnv64(serde_json::to_string(dvs).unwrap().as_bytes())
}

/// Source-like rendering of one revision of an interface (for evidence samples / replays).
pub fn render_rev(f: &Family, rev: usize) -> Vec<String> {
    let r = &f.revs[rev];
    let mut out = vec![format!(
        "{}#[savefile_abi_exportable(version = {})] trait {}{} // {}::{}",
        if f.async_trait { "#[async_trait] " } else { "" },
        r.version,
        f.name,
        f.bounds(),
        f.module,
        r.module
    )];
    for m in &r.methods {
        out.push(format!("  {};", abigen::emit::method_sig(f, m)));
    }
    out
}

pub fn render_defs(f: &Family) -> Vec<String> {
    let mut out = vec![];
    for d in &f.defs {
        match &d.kind {
            DKind::Struct(fields) => out.push(format!(
                "struct {} {{ {} }}",
                d.name,
                fields
                    .iter()
                    .map(|x| format!(
                        "{}: {} [v{}..{}]{}",
                        x.name,
                        f.rust_ty(&x.ty),
                        x.added,
                        x.removed_at.map(|r| (r - 1).to_string()).unwrap_or_default(),
                        match &x.default {
                            DefaultKind::Val(t) => format!(" default_val={:?}", t),
                            _ => String::new(),
                        }
                    ))
                    .collect::<Vec<_>>()
                    .join(", ")
            )),
            DKind::Enum(vars) => out.push(format!(
                "enum {} {{ {} }}",
                d.name,
                vars.iter()
                    .map(|v| format!("{}({}) [v{}..]", v.name, v.fields.iter().map(|t| f.rust_ty(t)).collect::<Vec<_>>().join(","), v.added))
                    .collect::<Vec<_>>()
                    .join(", ")
            )),
        }
    }
    out
}

pub fn gen_coverage(w: &World) -> Value {
    json!({
        "generator_distribution": w.batch.stats,
        "families": w.fams.len(),
        "trait_versions": w.fams.iter().map(|f| f.revs.len()).sum::<usize>(),
    })
}
