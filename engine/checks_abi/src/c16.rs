//! C16: connections are safe to create and use concurrently (low-assurance sampling of
//! schedules). Every case runs twice, each time in a freshly forked process whose ABI caches are
//! empty: once with the thread programs executed one after another (the sequential model) and
//! once with N real threads released together by a barrier. All results must be equal and all
//! threads must finish. A run that exceeds the watchdog is examined through /proc before it is
//! killed: only a *confirmed* deadlock (all threads asleep with unchanged CPU time over three
//! samples) is a violation, anything else is inconclusive.

use crate::iso::{Iso, Server};
use crate::*;
use abigen::script::*;
use abigen::strat::{call_spec, CallOpts};
use abirt::{Conn, ConnMode, Ctx, SharedConn};
use proptest::prelude::*;
use serde::{Deserialize, Serialize};

#[derive(Clone, Debug, Serialize, Deserialize)]
pub struct Block {
    /// index into Case::pool
    pub iface: usize,
    /// use the connection shared by all threads (only for `: Send + Sync` interfaces, `&self` methods)
    pub shared: bool,
    pub calls: Vec<CallSpec>,
    /// create the connection towards this revision of the family instead of the interface's own
    /// (an incompatible one: creation is expected to fail, identically in every schedule)
    #[serde(default)]
    pub to_rev: Option<usize>,
}

#[derive(Clone, Debug, Serialize, Deserialize)]
pub struct Case {
    /// (family index, revision index) of the interfaces used by this case
    pub pool: Vec<(usize, usize)>,
    /// 2^k threads, k in 1..=4
    pub threads_log2: u32,
    /// seed of the schedule perturbation (yield / short sleep / spin inside implementation
    /// methods, closures and callback objects)
    pub seed: u64,
    /// one program per thread (the first 2^k are used)
    pub programs: Vec<Vec<Block>>,
}

fn block_strategy(w: &World, pool: &[(usize, usize)]) -> BoxedStrategy<Block> {
    let o = CallOpts { panic_rate: 0, force_panic: None };
    let mut alts: Vec<BoxedStrategy<Block>> = vec![];
    for (pi, (fi, ri)) in pool.iter().enumerate() {
        let fam = &w.fams[*fi];
        let all: Vec<BoxedStrategy<CallSpec>> = fam.revs[*ri].methods.iter().map(|m| call_spec(fam, *ri, *ri, &m.name, o)).collect();
        let pi2 = pi;
        alts.push(proptest::collection::vec(proptest::strategy::Union::new(all), 1..=4).prop_map(move |calls| Block { iface: pi2, shared: false, calls, to_rev: None }).boxed());
        // connection attempts towards an incompatible revision of the same family (negotiation fails)
        let others: Vec<usize> = if fam.revs[*ri].is_breaking() { fam.compat_revs() } else { fam.breaking_revs() };
        for j in others.into_iter().take(2) {
            alts.push(Just(Block { iface: pi2, shared: false, calls: vec![], to_rev: Some(j) }).boxed());
        }
        if fam.send_sync {
            let refs: Vec<BoxedStrategy<CallSpec>> = fam.revs[*ri].methods.iter().filter(|m| !m.mut_self).map(|m| call_spec(fam, *ri, *ri, &m.name, o)).collect();
            if !refs.is_empty() {
                alts.push(proptest::collection::vec(proptest::strategy::Union::new(refs), 1..=4).prop_map(move |calls| Block { iface: pi2, shared: true, calls, to_rev: None }).boxed());
            }
        }
    }
    proptest::strategy::Union::new(alts).boxed()
}

pub fn case_strategy(w: &Arc<World>) -> BoxedStrategy<Case> {
    let ifaces: Vec<(usize, usize)> = w.fams.iter().enumerate().flat_map(|(fi, f)| (0..f.revs.len()).map(move |ri| (fi, ri))).collect();
    let n = ifaces.len();
    let w2 = w.clone();
    proptest::collection::vec(0..n, 1..=3)
        .prop_flat_map(move |idx| {
            let pool: Vec<(usize, usize)> = idx.iter().map(|i| ifaces[*i]).collect();
            let blk = block_strategy(&w2, &pool);
            (Just(pool), 1u32..=4, any::<u64>(), proptest::collection::vec(proptest::collection::vec(blk, 1..=3), 16..=16))
        })
        .prop_map(|(pool, threads_log2, seed, programs)| Case { pool, threads_log2, seed: seed | 1, programs })
        .boxed()
}

#[derive(Clone, Debug, PartialEq, Eq, Serialize, Deserialize)]
pub enum Res {
    Created,
    CreateFailed(String),
    Call(RetOut),
}

#[derive(Clone, Debug, Serialize, Deserialize)]
pub struct Obs {
    /// per thread: results in program order
    pub results: Vec<Vec<Res>>,
    pub unfinished_threads: Vec<usize>,
    pub ledger_bad: Vec<String>,
    pub shared_create_errors: Vec<String>,
}

fn run_thread(w: &World, case: &Case, ctx: &Arc<Ctx>, shared: &[Option<Arc<dyn SharedConn>>], prog: &[Block]) -> Vec<Res> {
    let mut out = vec![];
    let mut conns: Vec<Box<dyn Conn>> = vec![];
    for b in prog {
        let (fi, ri) = case.pool[b.iface];
        if b.shared {
            if let Some(Some(sc)) = shared.get(b.iface) {
                for spec in &b.calls {
                    out.push(Res::Call(sc.call_ref(spec).unwrap_or(RetOut::Panic("harness: not a &self method".into()))));
                }
                continue;
            }
        }
        match w.drivers[fi][ri].connect(ctx, match b.to_rev { Some(j) => ConnMode::AbiTo(j), None => ConnMode::Abi }) {
            Ok(mut c) => {
                out.push(Res::Created);
                for spec in &b.calls {
                    out.push(Res::Call(c.call(spec)));
                }
                // keep connections alive until the end of the program (more cached-creation overlap)
                conns.push(c);
            }
            Err(e) => out.push(Res::CreateFailed(e)),
        }
    }
    drop(conns);
    out
}

/// Executed in a freshly forked child (empty ABI caches).
pub fn observe(w: &World, case: &Case, concurrent: bool) -> Obs {
    let n = 1usize << case.threads_log2;
    let ctx = Ctx::new();
    ctx.quiet.store(true, std::sync::atomic::Ordering::Relaxed);
    ctx.pseed.store(case.seed, std::sync::atomic::Ordering::Relaxed);
    // user code in Drop: every implementation object that is dropped creates one more connection
    // (runs in this freshly forked process only; the reference is not used after `observe`)
    {
        let w_static: &'static World = unsafe { std::mem::transmute::<&World, &'static World>(w) };
        let (fi0, ri0) = case.pool[0];
        *abirt::IMPL_DROP_HOOK.write().unwrap() = Some(Box::new(move || {
            let c = Ctx::new();
            c.quiet.store(true, std::sync::atomic::Ordering::Relaxed);
            let _ = w_static.drivers[fi0][ri0].connect(&c, ConnMode::Abi);
        }));
    }
    let mut shared_create_errors = vec![];
    // shared connections exist before the threads start (their creation is not raced)
    let wants_shared: Vec<bool> = (0..case.pool.len()).map(|pi| case.programs[..n].iter().flatten().any(|b| b.shared && b.iface == pi)).collect();
    let shared: Vec<Option<Arc<dyn SharedConn>>> = case
        .pool
        .iter()
        .enumerate()
        .map(|(pi, (fi, ri))| {
            if !wants_shared[pi] {
                return None;
            }
            match w.drivers[*fi][*ri].connect_shared(&ctx, ConnMode::Abi) {
                Some(Ok(c)) => Some(c),
                Some(Err(e)) => {
                    shared_create_errors.push(e);
                    None
                }
                None => None,
            }
        })
        .collect();
    let mut results: Vec<Vec<Res>> = vec![vec![]; n];
    let mut unfinished = vec![];
    if concurrent {
        let barrier = std::sync::Barrier::new(n);
        std::thread::scope(|s| {
            let handles: Vec<_> = (0..n)
                .map(|t| {
                    let (ctx, shared, barrier) = (&ctx, &shared, &barrier);
                    let prog = &case.programs[t];
                    s.spawn(move || {
                        barrier.wait();
                        run_thread(w, case, ctx, shared, prog)
                    })
                })
                .collect();
            for (t, h) in handles.into_iter().enumerate() {
                match h.join() {
                    Ok(r) => results[t] = r,
                    Err(_) => unfinished.push(t),
                }
            }
        });
    } else {
        for t in 0..n {
            results[t] = run_thread(w, case, &ctx, &shared, &case.programs[t]);
        }
    }
    drop(shared);
    *abirt::IMPL_DROP_HOOK.write().unwrap() = None;
    // an implementation object handed to a connection attempt that fails is not dropped by the
    // library (it is leaked); whether it is dropped is not part of this property
    let failed_targets: std::collections::HashSet<String> = case
        .programs
        .iter()
        .flatten()
        .filter_map(|b| b.to_rev.map(|j| format!("impl {}", w.fams[case.pool[b.iface].0].path(j))))
        .collect();
    let ledger_bad = ctx
        .ledger()
        .into_iter()
        .filter(|t| t.drops != 1 && !(t.drops == 0 && failed_targets.contains(&t.label)))
        .map(|t| format!("{}:{}", t.label, t.drops))
        .collect();
    Obs { results, unfinished_threads: unfinished, ledger_bad, shared_create_errors }
}

/// Examine a process that exceeded the watchdog: thread states and CPU times, three samples one
/// second apart; gdb backtraces if ptrace is permitted.
pub fn examine(pid: i32) -> String {
    let sample = || -> Vec<(String, String, u64, String)> {
        let mut v = vec![];
        if let Ok(rd) = std::fs::read_dir(format!("/proc/{}/task", pid)) {
            for e in rd.flatten() {
                let tid = e.file_name().to_string_lossy().to_string();
                let stat = std::fs::read_to_string(e.path().join("stat")).unwrap_or_default();
                // fields after the command name (which is in parentheses)
                let rest: Vec<&str> = stat.rsplit(')').next().unwrap_or("").split_whitespace().collect();
                let state = rest.first().unwrap_or(&"?").to_string();
                let cpu = rest.get(11).and_then(|x| x.parse::<u64>().ok()).unwrap_or(0) + rest.get(12).and_then(|x| x.parse::<u64>().ok()).unwrap_or(0);
                let wchan = std::fs::read_to_string(e.path().join("wchan")).unwrap_or_default();
                let syscall = std::fs::read_to_string(e.path().join("syscall")).unwrap_or_default();
                v.push((tid, state, cpu, format!("wchan={} syscall={}", wchan.trim(), syscall.split_whitespace().next().unwrap_or("?"))));
            }
        }
        v.sort();
        v
    };
    let s1 = sample();
    std::thread::sleep(std::time::Duration::from_secs(1));
    let s2 = sample();
    std::thread::sleep(std::time::Duration::from_secs(1));
    let s3 = sample();
    let all_asleep = !s1.is_empty() && [&s1, &s2, &s3].iter().all(|s| s.iter().all(|t| t.1 == "S"));
    let cpu_same = s1.len() == s3.len() && s1.iter().zip(s3.iter()).all(|(a, b)| a.0 == b.0 && a.2 == b.2) && s1.iter().zip(s2.iter()).all(|(a, b)| a.2 == b.2);
    let mut out = String::new();
    out.push_str(if all_asleep && cpu_same { "CONFIRMED_DEADLOCK\n" } else { "NOT_CONFIRMED\n" });
    for t in &s3 {
        out.push_str(&format!("thread {} state {} cpu_ticks {} {}\n", t.0, t.1, t.2, t.3));
    }
    if let Ok(o) = std::process::Command::new("gdb").args(["-batch", "-p", &pid.to_string(), "-ex", "thread apply all bt"]).output() {
        let txt = String::from_utf8_lossy(&o.stdout);
        out.push_str("--- gdb ---\n");
        out.push_str(&txt.chars().take(6000).collect::<String>());
    } else {
        out.push_str("--- gdb not available ---\n");
    }
    out
}

pub struct Runner<'a> {
    pub w: &'a World,
    pub durations_ms: Vec<u128>,
}

impl<'a> Runner<'a> {
    fn watchdog_ms(&self) -> i64 {
        let mut d = self.durations_ms.clone();
        d.sort();
        let median = d.get(d.len() / 2).copied().unwrap_or(0);
        (100 * median as i64).max(20_000)
    }

    pub fn eval(&mut self, case: &Case, st: &mut Stats, counting: bool) -> Vec<Fail> {
        let w = self.w;
        let n = 1usize << case.threads_log2;
        let mut fails = vec![];
        let timeout = self.watchdog_ms();
        let t0 = std::time::Instant::now();
        // sequential model, in its own fresh process
        let mut seq_srv: Server<(), Obs> = Server::new(timeout, |_, _| observe(w, case, false));
        seq_srv.on_timeout = Some(Box::new(examine));
        let seq = match seq_srv.call(&()) {
            Iso::Done(o) => o,
            Iso::TimedOut { stderr, .. } => {
                // even one thread, executing the programs one after another, does not finish
                let exam = seq_srv.last_examination.take().unwrap_or_default();
                if exam.starts_with("CONFIRMED_DEADLOCK") {
                    fails.push(fail(
                        &[("check", "confirmed_deadlock"), ("threads", "1_sequential")],
                        format!("the sequential execution of the thread programs did not finish within {} ms; the only thread is asleep with unchanged CPU time over 3 samples", timeout),
                        json!({"threads": 1, "examination": exam, "stderr": stderr}),
                    ));
                } else {
                    fails.push(fail(&[("check", "HARNESS_watchdog_unconfirmed")], format!("sequential execution exceeded {} ms: {}", timeout, exam.chars().take(600).collect::<String>()), json!(null)));
                }
                return fails;
            }
            other => {
                fails.push(fail(&[("check", "HARNESS_sequential_run_failed")], format!("sequential execution of the case did not complete: {:?}", other).chars().take(800).collect(), json!(null)));
                return fails;
            }
        };
        drop(seq_srv);
        let mut conc_srv: Server<(), Obs> = Server::new(timeout, |_, _| observe(w, case, true));
        conc_srv.on_timeout = Some(Box::new(examine));
        let conc = conc_srv.call(&());
        let exam = conc_srv.last_examination.take();
        drop(conc_srv);
        self.durations_ms.push(t0.elapsed().as_millis());
        let nt = format!("{}", n);
        match conc {
            Iso::Done(c) => {
                if !c.unfinished_threads.is_empty() {
                    fails.push(fail(&[("check", "HARNESS_thread_panicked")], format!("threads {:?} panicked outside the guarded calls", c.unfinished_threads), json!(null)));
                }
                'cmp: for t in 0..n {
                    let (a, b) = (&seq.results[t], &c.results[t]);
                    for k in 0..a.len().max(b.len()) {
                        if a.get(k) != b.get(k) {
                            let what = match (a.get(k), b.get(k)) {
                                (Some(Res::Call(_)), Some(Res::Call(RetOut::Panic(_)))) => "call_panicked",
                                (Some(Res::Call(_)), Some(Res::Call(_))) => "call_result_differs",
                                (Some(Res::Created), Some(Res::CreateFailed(_))) => "creation_failed",
                                _ => "other",
                            };
                            fails.push(fail(
                                &[("check", "concurrent_result_differs"), ("what", what)],
                                format!("thread {} op {}: sequential execution gave {:?}, concurrent execution with {} threads gave {:?}", t, k, a.get(k), n, b.get(k)),
                                json!({"threads": n, "thread": t, "op": k}),
                            ));
                            break 'cmp;
                        }
                    }
                }
                if !c.ledger_bad.is_empty() && seq.ledger_bad.is_empty() {
                    fails.push(fail(
                        &[("check", "concurrent_drop_ledger")],
                        format!("owned objects not dropped exactly once under concurrency: {:?}", c.ledger_bad),
                        json!({"threads": n}),
                    ));
                }
                if !seq.ledger_bad.is_empty() {
                    fails.push(fail(&[("check", "HARNESS_sequential_ledger")], format!("{:?}", seq.ledger_bad), json!(null)));
                }
                if c.shared_create_errors != seq.shared_create_errors {
                    fails.push(fail(&[("check", "HARNESS_shared_create")], format!("{:?} vs {:?}", seq.shared_create_errors, c.shared_create_errors), json!(null)));
                }
            }
            Iso::Crashed { signal, exit, stderr, .. } => {
                fails.push(fail(
                    &[("check", "concurrent_process_crash"), ("signal", &signal.to_string())],
                    format!("the process running {} threads died (signal {}, exit {}): {}", n, signal, exit, stderr),
                    json!({"threads": n, "stderr": stderr}),
                ));
            }
            Iso::TimedOut { stderr, .. } => {
                let exam = exam.unwrap_or_default();
                if exam.starts_with("CONFIRMED_DEADLOCK") {
                    fails.push(fail(
                        &[("check", "confirmed_deadlock"), ("threads", &nt)],
                        format!("{} threads did not finish within {} ms (the sequential execution took {} ms); all threads asleep with unchanged CPU time over 3 samples", n, timeout, t0.elapsed().as_millis()),
                        json!({"threads": n, "examination": exam, "stderr": stderr}),
                    ));
                } else {
                    fails.push(fail(
                        &[("check", "HARNESS_watchdog_unconfirmed")],
                        format!("{} threads did not finish within {} ms but a deadlock could not be confirmed: {}", n, timeout, exam.chars().take(600).collect::<String>()),
                        json!(null),
                    ));
                }
            }
            Iso::Harness(e) => fails.push(fail(&[("check", "HARNESS_isolation")], e, json!(null))),
        }
        if counting {
            st.evaluations += 1;
            st.class(&format!("threads.{:02}", n));
            let progs = &case.programs[..n];
            let calls: usize = progs.iter().flatten().map(|b| b.calls.len()).sum();
            st.class_n("calls", calls as u64);
            st.class_n("connections_created_in_threads", progs.iter().flatten().filter(|b| !b.shared).count() as u64);
            st.class_n("blocks_on_shared_connection", progs.iter().flatten().filter(|b| b.shared).count() as u64);
            let cb_calls = progs
                .iter()
                .flatten()
                .flat_map(|b| b.calls.iter().map(move |c| (b.iface, c)))
                .filter(|(pi, c)| {
                    let (fi, ri) = case.pool[*pi];
                    w.fams[fi].revs[ri].method(&c.method).map_or(false, |(_, m)| m.args.iter().any(|a| a.kind.is_callback()) || !m.ret.is_data())
                })
                .count();
            st.class_n("calls_that_create_nested_connections", cb_calls as u64);
            // non-trivial: >= 2 threads start by creating a connection for the same interface
            let mut firsts: BTreeMap<usize, usize> = BTreeMap::new();
            for p in progs {
                if let Some(b) = p.first() {
                    if !b.shared {
                        *firsts.entry(b.iface).or_insert(0) += 1;
                    }
                }
            }
            let distinct_ifaces: BTreeSet<(usize, usize)> = case.pool.iter().cloned().collect();
            st.class(&format!("distinct_interfaces.{}", distinct_ifaces.len()));
            if firsts.values().any(|c| *c >= 2) {
                st.class("first_use_race.same_interface");
                st.nontrivial.insert(vcore::rng::fnv64(format!("{:?}", case).as_bytes()));
            }
            if firsts.len() >= 2 {
                st.class("first_use_race.different_interfaces");
            }
            if st.samples.is_empty() {
                st.sample(json!({
                    "threads": n,
                    "perturbation_seed": case.seed,
                    "interfaces": case.pool.iter().map(|(fi, ri)| w.fams[*fi].path(*ri)).collect::<Vec<_>>(),
                    "thread_programs": progs.iter().map(|p| p.iter().map(|b| format!("{} {}: {}", if b.shared { "shared connection of" } else { "create connection for" }, w.fams[case.pool[b.iface].0].path(case.pool[b.iface].1), b.calls.iter().map(|c| c.method.clone()).collect::<Vec<_>>().join(", "))).collect::<Vec<_>>()).collect::<Vec<_>>(),
                    "sequential_results_thread0": seq.results[0].iter().map(|r| format!("{:?}", r).chars().take(120).collect::<String>()).collect::<Vec<_>>(),
                }));
            }
        }
        fails
    }
}

pub fn replay_value(w: &World, case: &Case, f: &Fail) -> Value {
    json!({
        "kind": "C16",
        "interfaces": case.pool.iter().map(|(fi, ri)| render_rev(&w.fams[*fi], *ri)).collect::<Vec<_>>(),
        "c16case": case,
        "failure": f.detail,
        "observed": f.extra,
    })
}
