//! C10: version tolerance. For every ordered pair (caller revision i, implementation revision j)
//! of a family the caller's `AbiConnection<dyn Trait_i>` is wired to an implementation of
//! `Trait_j` (`from_boxed_trait_for_test`, as in the repo's own version tests). The reference
//! model (abigen::model) predicts what each side must observe:
//! `upgrade(downgrade(x, sender -> m), m -> receiver)`, `m = min(i, j)`.

use crate::*;
use abigen::model::MethodSig;
use abigen::script::*;
use abirt::{ConnMode, Ctx};

pub struct Pair<'a> {
    pub fam: &'a Arc<Family>,
    pub caller: usize,
    pub imp: usize,
    pub drv: &'a dyn Driver,
}

fn joined(e: &std::collections::BTreeSet<&'static str>) -> String {
    if e.is_empty() {
        "none".to_string()
    } else {
        e.iter().cloned().collect::<Vec<_>>().join("+")
    }
}

fn relation(kc: u32, ki: u32) -> &'static str {
    if kc < ki {
        "older_caller_newer_implementation"
    } else if kc > ki {
        "newer_caller_older_implementation"
    } else {
        "same_version"
    }
}

/// What one call across the pair produced (computed in a forked child, see `iso`).
#[derive(Clone, Debug, serde::Serialize, serde::Deserialize)]
pub struct Obs {
    pub connect_err: Option<String>,
    pub out: Option<RetOut>,
    pub events: Vec<Ev>,
    pub ledger: Vec<(String, u32)>,
    /// per argument of the called method: `get_arg_passable_by_ref`
    pub by_ref: Vec<bool>,
}

pub fn observe(p: &Pair, spec: &CallSpec, sink_fd: i32) -> Obs {
    let ctx = Ctx::new();
    ctx.sink_fd.store(sink_fd, std::sync::atomic::Ordering::Relaxed);
    let mut conn = match p.drv.connect(&ctx, ConnMode::AbiTo(p.imp)) {
        Ok(c) => c,
        Err(e) => return Obs { connect_err: Some(e), out: None, events: vec![], ledger: vec![], by_ref: vec![] },
    };
    let by_ref = (0..spec.args.len()).map(|a| conn.passable_by_ref(&spec.method, a).unwrap_or(false)).collect();
    let out = conn.call(spec);
    drop(conn);
    Obs { connect_err: None, out: Some(out), events: ctx.events(), ledger: ctx.ledger().into_iter().map(|t| (t.label, t.drops)).collect(), by_ref }
}

fn all_edits(fam: &Family, mc: &Method, mi: Option<&Method>, kc: u32, ki: u32) -> (String, String, String) {
    let mut arg_edits = std::collections::BTreeSet::new();
    for a in &mc.args {
        if let Some(t) = a.kind.data_ty() {
            arg_edits.extend(fam.edits_between(&t, kc, ki));
        }
    }
    let mut ret_edits = std::collections::BTreeSet::new();
    let mut cl_edits = std::collections::BTreeSet::new();
    if let Some(mi) = mi {
        match mi.ret.script_ty() {
            ScriptTy::Data(t) => ret_edits.extend(fam.edits_between(&t, kc, ki)),
            ScriptTy::Res(a, b) => {
                ret_edits.extend(fam.edits_between(&a, kc, ki));
                ret_edits.extend(fam.edits_between(&b, kc, ki));
            }
            ScriptTy::ObjId => {}
        }
        for a in &mi.args {
            if let Some(s) = a.kind.sig() {
                for x in &s.args {
                    cl_edits.extend(fam.edits_between(&x.ty, kc, ki));
                }
                cl_edits.extend(fam.edits_between(&s.ret, kc, ki));
            }
        }
    }
    (joined(&arg_edits), joined(&ret_edits), joined(&cl_edits))
}

/// Where did a call stop, judged from the events recorded before it failed: which transfer was
/// in progress (arguments to the implementation, closure arguments back to the caller, a
/// closure's result to the implementation, the return value to the caller, ...)
fn stopped_at(events: &[Ev], spec: &CallSpec, mi: Option<&Method>) -> &'static str {
    let last = events.iter().rev().find(|e| !e.k.starts_with("harness"));
    let planned = mi.map_or(false, |mi| spec.imp.plans.iter().enumerate().any(|(ai, p)| !p.is_empty() && mi.args.get(ai).map_or(false, |a| a.kind.sig().is_some())));
    match last {
        None => "argument",
        Some(e) if e.k == "caller.closure" => "closure_return",
        Some(e) if e.k == "retfn.invoked" => "returned_closure_return",
        Some(e) if e.k == "caller.ret_closure.result" => "returned_closure_argument",
        Some(e) if e.k == "impl.cb_result" => {
            // between two closure invocations or after the last one
            let done = events.iter().filter(|e| e.k == "impl.cb_result").count();
            let total: usize = mi.map_or(0, |mi| spec.imp.plans.iter().enumerate().filter(|(ai, _)| mi.args.get(*ai).map_or(false, |a| a.kind.is_callback())).map(|(_, p)| p.len()).sum());
            if done < total {
                "closure_argument"
            } else {
                "return"
            }
        }
        Some(e) if e.k.starts_with("impl.call") && planned => "closure_argument",
        _ => "return",
    }
}

/// Evaluate one call across the pair. All oracle failures are returned.
pub type Srv<'a> = crate::iso::Server<'a, CallSpec, Obs>;

pub fn server<'a>(p: &'a Pair<'a>) -> Srv<'a> {
    crate::iso::Server::new(20_000, move |spec: CallSpec, fd| observe(p, &spec, fd))
}

pub fn eval(p: &Pair, srv: &mut Srv, spec: &CallSpec, st: &mut Stats, counting: bool) -> Vec<Fail> {
    let fam = p.fam;
    let (kc, ki) = (fam.revs[p.caller].version, fam.revs[p.imp].version);
    let rel = relation(kc, ki);
    let mut fails = vec![];
    let base = json!({"family": fam.name, "caller": fam.revs[p.caller].module, "implementation": fam.revs[p.imp].module, "caller_version": kc, "implementation_version": ki});
    let (_, mc) = fam.revs[p.caller].method(&spec.method).expect("method");
    let mi = fam.revs[p.imp].method(&spec.method).map(|x| x.1);
    let obs_ = match srv.call(spec) {
        crate::iso::Iso::Done(o) => o,
        crate::iso::Iso::Crashed { signal, exit, stderr, streamed } => {
            let cause = if stderr.contains("memory allocation of") || stderr.contains("capacity overflow") {
                "absurd_allocation"
            } else if stderr.contains("non-unwinding panic") || stderr.contains("cannot unwind") {
                "panic_in_extern_c_function"
            } else if signal == libc::SIGSEGV || signal == libc::SIGBUS {
                "memory_fault"
            } else {
                "other"
            };
            let evs: Vec<Ev> = streamed.iter().filter_map(|l| serde_json::from_str(l).ok()).collect();
            let (ae, re, ce) = all_edits(fam, mc, mi, kc, ki);
            let dir = stopped_at(&evs, spec, mi);
            fails.push(fail(
                &[("check", "process_abort"), ("direction", dir), ("relation", rel), ("cause", cause)],
                format!("{}: the process died during the call (signal {}, exit {}): {}", spec.method, signal, exit, stderr.trim()),
                json!({"pair": base, "signal": signal, "stderr": stderr, "events_before_death": render_events(&evs), "edits": {"arguments": ae, "return": re, "closures": ce}}),
            ));
            if counting {
                st.evaluations += 1;
                st.class("outcome.process_abort");
            }
            return fails;
        }
        crate::iso::Iso::TimedOut { stderr, .. } => {
            fails.push(fail(&[("check", "HARNESS_case_timeout")], format!("{}: case did not finish within 20 s: {}", spec.method, stderr), json!(null)));
            return fails;
        }
        crate::iso::Iso::Harness(e) => {
            fails.push(fail(&[("check", "HARNESS_isolation")], e, json!(null)));
            return fails;
        }
    };
    if let Some(e) = &obs_.connect_err {
        fails.push(fail(
            &[("check", "compatible_pair_rejected"), ("relation", rel)],
            format!("connection creation between compatible revisions failed: {}", e),
            json!({"pair": base, "error": e}),
        ));
        return fails;
    }
    let out = obs_.out.clone().unwrap();
    let events = obs_.events.clone();
    let ledger: Vec<abirt::TokenRec> = obs_.ledger.iter().map(|(l, d)| abirt::TokenRec { label: l.clone(), drops: *d }).collect();
    let obs = |extra: Value| json!({"pair": base, "observed": extra, "events": render_events(&events)});

    let Some(mi) = mi else {
        // the implementation lacks the method: the call must panic naming it
        match &out {
            RetOut::Panic(t) if t.contains(&spec.method) => {}
            other => fails.push(fail(
                &[("check", "missing_method_call"), ("relation", rel)],
                format!("calling {} (absent from the implementation) gave {} instead of a panic naming the method", spec.method, other.render()),
                obs(json!(null)),
            )),
        }
        if counting {
            st.evaluations += 1;
            st.class("call.method_missing_in_implementation");
            st.nontrivial.insert(vcore::rng::fnv64(format!("{}/{}/{}/{}/missing", fam.name, p.caller, p.imp, spec.method).as_bytes()));
        }
        return fails;
    };

    // ---- argument direction: what the implementation observed
    let call_ev = events.iter().find(|e| e.k == format!("impl.call:{}", spec.method));
    let mut arg_edits = std::collections::BTreeSet::new();
    for a in &mc.args {
        if let Some(t) = a.kind.data_ty() {
            arg_edits.extend(fam.edits_between(&t, kc, ki));
        }
    }
    let mut ret_edits = std::collections::BTreeSet::new();
    match mi.ret.script_ty() {
        ScriptTy::Data(t) => ret_edits.extend(fam.edits_between(&t, kc, ki)),
        ScriptTy::Res(a, b) => {
            ret_edits.extend(fam.edits_between(&a, kc, ki));
            ret_edits.extend(fam.edits_between(&b, kc, ki));
        }
        ScriptTy::ObjId => {}
    }
    match call_ev {
        None => {
            fails.push(fail(
                &[("check", "call_not_delivered"), ("direction", "argument"), ("relation", rel)],
                format!("{}: the implementation was never entered; caller got {}", spec.method, out.render()),
                obs(json!(null)),
            ));
        }
        Some(ev) => {
            for (ai, a) in mc.args.iter().enumerate() {
                let Some(t) = a.kind.data_ty() else { continue };
                let want = fam.convert(&t, &spec.args[ai], kc, ki);
                if ev.d.get(ai) != Some(&want) {
                    fails.push(fail(
                        &[
                            ("check", "argument_value_version"),
                            ("direction", "argument"),
                            ("relation", rel),
                            ("arg_kind", a.kind.label()),
                            ("passed_by_pointer", if obs_.by_ref.get(ai).copied().unwrap_or(false) { "true" } else { "false" }),
                        ],
                        format!(
                            "{} argument {}: caller (v{}) passed {}; implementation (v{}) must observe {} but observed {}",
                            spec.method,
                            ai,
                            kc,
                            spec.args[ai].render(),
                            ki,
                            want.render(),
                            ev.d.get(ai).map(|x| x.render()).unwrap_or("<nothing>".into())
                        ),
                        obs(json!({"arg": ai, "passed": spec.args[ai], "expected": want, "observed": ev.d.get(ai)})),
                    ));
                    break;
                }
            }
            // closures: arguments travel implementation -> caller, results caller -> implementation
            for (ai, a) in mi.args.iter().enumerate() {
                let Some(s) = a.kind.sig() else { continue };
                let mut cl_edits = std::collections::BTreeSet::new();
                for x in &s.args {
                    cl_edits.extend(fam.edits_between(&x.ty, kc, ki));
                }
                cl_edits.extend(fam.edits_between(&s.ret, kc, ki));
                let plan = spec.imp.plans.get(ai).cloned().unwrap_or_default();
                let rets = spec.caller.closure_rets.get(ai).cloned().unwrap_or_default();
                let panicked = matches!(out, RetOut::Panic(_));
                for (n, call_args) in plan.iter().enumerate() {
                    let seen = events.iter().find(|e| e.k == "caller.closure" && e.n == vec![ai as u64, n as u64]);
                    let Some(seen) = seen else {
                        if !panicked {
                            fails.push(fail(
                                &[("check", "closure_not_invoked"), ("direction", "closure_argument"), ("relation", rel)],
                                format!("{}: invocation {} of closure argument {} never reached the caller's closure", spec.method, n, ai),
                                obs(json!(null)),
                            ));
                        }
                        break;
                    };
                    let want: Vec<DV> = s.args.iter().zip(call_args).map(|(x, v)| fam.convert(&x.ty, v, ki, kc)).collect();
                    if seen.d[..seen.d.len() - 1] != want[..] {
                        fails.push(fail(
                            &[("check", "closure_argument_version"), ("direction", "closure_argument"), ("relation", rel)],
                            format!(
                                "{}: closure argument {} invocation {}: implementation passed {:?}; caller's closure must observe {:?} but observed {:?}",
                                spec.method,
                                ai,
                                n,
                                call_args.iter().map(|x| x.render()).collect::<Vec<_>>(),
                                want.iter().map(|x| x.render()).collect::<Vec<_>>(),
                                seen.d[..seen.d.len() - 1].iter().map(|x| x.render()).collect::<Vec<_>>()
                            ),
                            obs(json!({"closure_arg": ai, "invocation": n})),
                        ));
                        break;
                    }
                    if rets.is_empty() {
                        continue;
                    }
                    let want_r = fam.convert(&s.ret, &rets[n % rets.len()], kc, ki);
                    let got = events.iter().find(|e| e.k == "impl.cb_result" && e.n == vec![ai as u64, n as u64]);
                    if got.map(|e| &e.d[0]) != Some(&want_r) {
                        if got.is_none() && panicked {
                            break;
                        }
                        fails.push(fail(
                            &[("check", "closure_return_version"), ("direction", "closure_return"), ("relation", rel)],
                            format!(
                                "{}: closure argument {} invocation {}: caller's closure returned {}; implementation must receive {} but received {}",
                                spec.method,
                                ai,
                                n,
                                rets[n % rets.len()].render(),
                                want_r.render(),
                                got.map(|e| e.d[0].render()).unwrap_or("<nothing>".into())
                            ),
                            obs(json!({"closure_arg": ai, "invocation": n})),
                        ));
                        break;
                    }
                }
            }
            // ---- return direction
            let want_ret = match (&mi.ret, mc.ret.is_data()) {
                (RetKind::Unit, _) => Some(DV::unit()),
                (RetKind::Val(t), _) | (RetKind::Future(t), _) => Some(fam.convert(t, &spec.imp.ret, ki, kc)),
                (RetKind::Res(a, b), _) => Some(fam.convert_res(a, b, &spec.imp.ret, ki, kc)),
                _ => None,
            };
            let arg_fail = fails.iter().any(|f| f.sig.get("direction").map(|d| d != "return").unwrap_or(false));
            match (&out, want_ret) {
                (RetOut::Val(got), Some(want)) => {
                    if *got != want {
                        fails.push(fail(
                            &[("check", "return_value_version"), ("direction", "return"), ("relation", rel), ("ret_kind", mi.ret.label())],
                            format!(
                                "{}: implementation (v{}) returned {}; caller (v{}) must receive {} but received {}",
                                spec.method,
                                ki,
                                spec.imp.ret.render(),
                                kc,
                                want.render(),
                                got.render()
                            ),
                            obs(json!({"returned": spec.imp.ret, "expected": want, "received": got})),
                        ));
                    }
                }
                (RetOut::Val(_), None) => {
                    // returned closure / object: its invocations
                    if let RetKind::BoxFn(s) | RetKind::ResBoxFn(s) = &mi.ret {
                        let is_ok = !matches!(&mi.ret, RetKind::ResBoxFn(_)) || spec.imp.ret.v().0 == 1;
                        let rv = if let RetKind::ResBoxFn(_) = &mi.ret { spec.imp.ret.v().1.get(0).cloned() } else { Some(spec.imp.ret.clone()) };
                        if is_ok {
                            let mut e2 = std::collections::BTreeSet::new();
                            for x in &s.args {
                                e2.extend(fam.edits_between(&x.ty, kc, ki));
                            }
                            e2.extend(fam.edits_between(&s.ret, kc, ki));
                            let invoked: Vec<&Ev> = events.iter().filter(|e| e.k == "retfn.invoked").collect();
                            let results: Vec<&Ev> = events.iter().filter(|e| e.k == "caller.ret_closure.result").collect();
                            for (n, call_args) in spec.caller.ret_calls.iter().enumerate() {
                                let want: Vec<DV> = s.args.iter().zip(call_args).map(|(x, v)| fam.convert(&x.ty, v, kc, ki)).collect();
                                if invoked.get(n).map(|e| &e.d) != Some(&want) {
                                    fails.push(fail(
                                        &[("check", "closure_argument_version"), ("direction", "returned_closure_argument"), ("relation", rel)],
                                        format!(
                                            "{}: returned closure invocation {}: caller passed {:?}; implementation's closure must observe {:?} but observed {:?}",
                                            spec.method,
                                            n,
                                            call_args.iter().map(|x| x.render()).collect::<Vec<_>>(),
                                            want.iter().map(|x| x.render()).collect::<Vec<_>>(),
                                            invoked.get(n).map(|e| e.d.iter().map(|x| x.render()).collect::<Vec<_>>())
                                        ),
                                        obs(json!({"invocation": n})),
                                    ));
                                    break;
                                }
                                let want_r = fam.convert(&s.ret, rv.as_ref().unwrap(), ki, kc);
                                if results.get(n).map(|e| &e.d[0]) != Some(&want_r) {
                                    fails.push(fail(
                                        &[("check", "closure_return_version"), ("direction", "returned_closure_return"), ("relation", rel)],
                                        format!(
                                            "{}: returned closure invocation {}: implementation's closure returned {}; caller must receive {} but received {}",
                                            spec.method,
                                            n,
                                            rv.as_ref().unwrap().render(),
                                            want_r.render(),
                                            results.get(n).map(|e| e.d[0].render()).unwrap_or("<nothing>".into())
                                        ),
                                        obs(json!({"invocation": n})),
                                    ));
                                    break;
                                }
                            }
                        }
                    }
                }
                (RetOut::Panic(t), _) => {
                    if !arg_fail {
                        // the implementation was entered and did not panic by script: where did the call stop?
                        let dir = stopped_at(&events, spec, Some(mi));
                        let (ae, re, ce) = all_edits(fam, mc, Some(mi), kc, ki);
                        fails.push(fail(
                            &[("check", "unexpected_panic"), ("direction", dir), ("relation", rel)],
                            format!("{}: implementation (v{}) was entered and did not panic, but the caller (v{}) got a panic: {}", spec.method, ki, kc, t),
                            obs(json!({"returned": spec.imp.ret, "panic": t, "edits": {"arguments": ae, "return": re, "closures": ce}})),
                        ));
                    }
                }
            }
        }
    }
    // owned objects: exactly one drop each
    for t in &ledger {
        if t.drops != 1 && fails.is_empty() {
            let obj = t.label.split(' ').next().unwrap_or("");
            fails.push(fail(
                &[("check", "drop_ledger"), ("object", obj), ("drops", if t.drops == 0 { "0" } else { "2+" }), ("relation", rel)],
                format!("{}: owned object {} dropped {} times", spec.method, t.label, t.drops),
                obs(json!(null)),
            ));
            break;
        }
    }

    if counting {
        st.evaluations += 1;
        st.class(&format!("pair.{}", rel));
        st.class(&format!("call.class.{}", mc.class));
        let arg_nt = kc != ki && mc.args.iter().any(|a| a.kind.data_ty().map_or(false, |t| fam.shape_differs(&t, kc, ki)));
        let ret_nt = kc != ki
            && match mi.ret.script_ty() {
                ScriptTy::Data(t) => mi.ret.is_data() && fam.shape_differs(&t, kc, ki),
                ScriptTy::Res(a, b) => mi.ret.is_data() && (fam.shape_differs(&a, kc, ki) || fam.shape_differs(&b, kc, ki)),
                ScriptTy::ObjId => false,
            };
        let cl_nt = kc != ki
            && mi.args.iter().any(|a| a.kind.sig().map_or(false, |s| s.args.iter().any(|x| fam.shape_differs(&x.ty, kc, ki)) || fam.shape_differs(&s.ret, kc, ki)))
            && spec.imp.plans.iter().any(|p| !p.is_empty());
        let h = dv_hash(&spec.args) ^ dv_hash(&[spec.imp.ret.clone()]).rotate_left(7);
        let fp = |tag: &str| vcore::rng::fnv64(format!("{}/{}/{}/{}/{}/{:x}", fam.name, p.caller, p.imp, spec.method, tag, h).as_bytes());
        if arg_nt {
            st.class(&format!("nontrivial.argument_direction.{}", rel));
            st.nontrivial.insert(fp("arg"));
        }
        if ret_nt {
            st.class(&format!("nontrivial.return_direction.{}", rel));
            st.nontrivial.insert(fp("ret"));
        }
        if cl_nt {
            st.class(&format!("nontrivial.closure_directions.{}", rel));
            st.nontrivial.insert(fp("closure"));
        }
        for e in arg_edits.iter() {
            st.class(&format!("edits.argument.{}", e));
        }
        for e in ret_edits.iter() {
            st.class(&format!("edits.return.{}", e));
        }
        if st.samples.len() < 1 && (arg_nt && ret_nt) {
            st.sample(json!({
                "pair": base,
                "defs": render_defs(fam),
                "method": abigen::emit::method_sig(fam, mc),
                "caller_passed": spec.args.iter().map(|a| a.render()).collect::<Vec<_>>(),
                "implementation_observed": call_ev.map(|e| e.d.iter().map(|x| x.render()).collect::<Vec<_>>()),
                "implementation_returned": spec.imp.ret.render(),
                "caller_received": out.render(),
            }));
        }
    }
    fails
}

pub fn replay_value(p: &Pair, spec: &CallSpec, f: &Fail) -> Value {
    let fam = p.fam;
    json!({
        "kind": "C10",
        "family": fam.name,
        "caller": fam.revs[p.caller].module,
        "implementation": fam.revs[p.imp].module,
        "caller_interface": render_rev(fam, p.caller),
        "implementation_interface": render_rev(fam, p.imp),
        "defs": render_defs(fam),
        "spec": spec,
        "failure": f.detail,
        "observed": f.extra,
    })
}

/// Model of connection creation: the effective definitions (at the negotiated version) of the
/// methods present on both sides must agree; methods on one side only are fine.
pub fn creation_compatible(caller: &[MethodSig], imp: &[MethodSig]) -> Result<(), String> {
    for c in caller {
        let Some(i) = imp.iter().find(|i| i.name == c.name) else { continue };
        if c.args.len() != i.args.len() {
            return Err(format!("{}: argument count {} vs {}", c.name, c.args.len(), i.args.len()));
        }
        for (k, (a, b)) in c.args.iter().zip(i.args.iter()).enumerate() {
            if a != b {
                return Err(format!("{}: argument {}: {} vs {}", c.name, k, a, b));
            }
        }
        if c.ret != i.ret {
            return Err(format!("{}: return type {} vs {}", c.name, c.ret, i.ret));
        }
    }
    Ok(())
}

/// Enumerated (not sampled) part: every ordered pair of revisions of every family, creation only.
pub fn creation_cases(w: &World, fi: usize, st: &mut Stats) {
    let fam = &w.fams[fi];
    for i in 0..fam.revs.len() {
        for j in 0..fam.revs.len() {
            if i == j {
                continue;
            }
            let (ri, rj) = (&fam.revs[i], &fam.revs[j]);
            if !ri.is_breaking() && !rj.is_breaking() {
                continue; // compatible pairs are exercised by the call campaign
            }
            let m = ri.version.min(rj.version);
            let expect = creation_compatible(&fam.definition_at(i, m), &fam.definition_at(j, m));
            let ctx = Ctx::new();
            let got = w.drivers[fi][i].connect(&ctx, ConnMode::AbiTo(j));
            st.evaluations += 1;
            let kind = |r: &Rev| match &r.label {
                RevLabel::Breaking { kind, .. } => kind.label(),
                _ => "compatible",
            };
            let bk = if ri.is_breaking() { kind(ri) } else { kind(rj) };
            let role = if ri.is_breaking() { "caller_has_breaking_revision" } else { "implementation_has_breaking_revision" };
            st.class(&format!("creation.{}.{}", bk, if expect.is_ok() { "expect_ok" } else { "expect_err" }));
            st.nontrivial.insert(vcore::rng::fnv64(format!("creation/{}/{}/{}", fam.name, i, j).as_bytes()));
            let base = json!({"family": fam.name, "caller": ri.module, "implementation": rj.module, "caller_interface": render_rev(fam, i), "implementation_interface": render_rev(fam, j), "negotiated_version": m});
            match (&expect, &got) {
                (Ok(()), Ok(_)) | (Err(_), Err(_)) => {}
                (Err(why), Ok(_)) => st.violations.push(Violation {
                    signature: [("check", "breaking_change_accepted_at_creation"), ("break_kind", bk), ("role", role)].iter().map(|(a, b)| (a.to_string(), b.to_string())).collect(),
                    replay: json!({"kind": "C10-creation", "family": fam.name, "caller": ri.module, "implementation": rj.module, "pair": base, "failure": format!("connection creation succeeded although the effective definitions differ: {}", why)}),
                }),
                (Ok(()), Err(e)) => st.violations.push(Violation {
                    signature: [("check", "compatible_pair_rejected"), ("break_kind", bk), ("role", role)].iter().map(|(a, b)| (a.to_string(), b.to_string())).collect(),
                    replay: json!({"kind": "C10-creation", "family": fam.name, "caller": ri.module, "implementation": rj.module, "pair": base, "failure": format!("connection creation failed although the definitions of the shared methods agree: {}", e)}),
                }),
            }
            if st.samples.len() < 2 && expect.is_err() {
                st.sample(json!({"creation": base, "model_expects": format!("Err ({})", expect.clone().unwrap_err()), "observed": got.as_ref().map(|_| "Ok").map_err(|e| e.chars().take(200).collect::<String>())}));
            }
            // method removed: creation succeeds, calling the removed method panics naming it
            if let (Ok(mut conn), RevLabel::Breaking { kind: BreakKind::MethodRemoved, method, .. }) = (got, &rj.label) {
                if ri.method(method).is_some() {
                    // arguments of the right types for the caller's declaration of the method
                    let spec: CallSpec = {
                        use proptest::strategy::{Strategy, ValueTree};
                        let strat = abigen::strat::call_spec(fam, i, i, method, abigen::strat::CallOpts { panic_rate: 0, force_panic: None });
                        let mut runner = proptest::test_runner::TestRunner::new_with_rng(
                            proptest::test_runner::Config::default(),
                            proptest::test_runner::TestRng::from_seed(proptest::test_runner::RngAlgorithm::ChaCha, &[7u8; 32]),
                        );
                        strat.new_tree(&mut runner).expect("call spec").current()
                    };
                    st.evaluations += 1;
                    st.class("creation.method_removed.call_missing_method");
                    match conn.call(&spec) {
                        RetOut::Panic(t) if t.contains(method.as_str()) => {}
                        other => st.violations.push(Violation {
                            signature: [("check", "missing_method_call"), ("relation", "removed_by_breaking_revision")].iter().map(|(a, b)| (a.to_string(), b.to_string())).collect(),
                            replay: json!({"kind": "C10-creation", "family": fam.name, "caller": ri.module, "implementation": rj.module, "pair": base, "failure": format!("calling removed method {} gave {}", method, other.render())}),
                        }),
                    }
                }
            }
        }
    }
}
