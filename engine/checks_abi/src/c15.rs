//! placeholder
