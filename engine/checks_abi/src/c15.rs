//! C15: the ABI compatibility ledger (`savefile_abi::verify_compatiblity`). Generated run
//! sequences over the revisions of a family against a fresh directory; the model records the
//! definition of each version at first sight and predicts Ok / Err of every later run.

use crate::*;
use abigen::model::{backward_compatible, MethodSig};
use proptest::prelude::*;
use serde::{Deserialize, Serialize};
use std::sync::atomic::{AtomicU64, Ordering};

#[derive(Clone, Copy, Debug, PartialEq, Eq, Serialize, Deserialize)]
pub enum Step {
    /// run the current revision again
    Repeat,
    /// run the next compatible revision (the last one again if there is none)
    Advance,
    /// run the k-th labelled breaking revision (modulo their number; Repeat if the family has none)
    Breaking(usize),
    /// run the previous compatible revision again (an older build of the interface)
    Back,
}

#[derive(Clone, Debug, Serialize, Deserialize)]
pub struct Seq {
    /// directory pre-populated with the files of this compatible revision (index into the
    /// compatible chain), as if checked in earlier; None = empty directory
    pub start: Option<usize>,
    pub steps: Vec<Step>,
}

pub fn seq_strategy(fam: &Family) -> BoxedStrategy<Seq> {
    let nc = fam.compat_revs().len();
    let step = prop_oneof![
        3 => Just(Step::Repeat),
        4 => Just(Step::Advance),
        2 => (0usize..8).prop_map(Step::Breaking),
        1 => Just(Step::Back),
    ];
    (prop_oneof![2 => Just(None), 1 => (0..nc).prop_map(Some)], proptest::collection::vec(step, 1..=7)).prop_map(|(start, steps)| Seq { start, steps }).boxed()
}

static DIRCOUNT: AtomicU64 = AtomicU64::new(0);

struct TempDir(std::path::PathBuf);
impl TempDir {
    fn new(tag: &str) -> TempDir {
        let n = DIRCOUNT.fetch_add(1, Ordering::Relaxed);
        let p = std::env::temp_dir().join(format!("verif-c15-{}-{}-{}", std::process::id(), tag, n));
        let _ = std::fs::remove_dir_all(&p);
        std::fs::create_dir_all(&p).expect("temp dir");
        TempDir(p)
    }
    fn path(&self) -> &str {
        self.0.to_str().unwrap()
    }
    fn files(&self) -> Vec<String> {
        let mut v: Vec<String> = std::fs::read_dir(&self.0).map(|rd| rd.flatten().map(|e| e.file_name().to_string_lossy().to_string()).collect()).unwrap_or_default();
        v.sort();
        v
    }
}
impl Drop for TempDir {
    fn drop(&mut self) {
        let _ = std::fs::remove_dir_all(&self.0);
    }
}

fn file_name(fam: &Family, v: u32) -> String {
    format!("savefile_{}_{}.schema", fam.name, v)
}

fn rev_label(fam: &Family, r: usize) -> String {
    match &fam.revs[r].label {
        RevLabel::Compat => format!("{} (version {}, compatible edits {:?})", fam.revs[r].module, fam.revs[r].version, fam.revs[r].edits),
        RevLabel::Breaking { base, kind, method } => {
            format!("{} (version {}, BREAKING {} of {} relative to {})", fam.revs[r].module, fam.revs[r].version, kind.label(), method, fam.revs[*base].module)
        }
    }
}

pub fn eval(fam: &Arc<Family>, drivers: &[Box<dyn Driver>], seq: &Seq, st: &mut Stats, counting: bool) -> Vec<Fail> {
    let compat = fam.compat_revs();
    let breaking = fam.breaking_revs();
    let mut fails: Vec<Fail> = vec![];
    let dir = TempDir::new("case");
    let mut recorded: std::collections::BTreeMap<u32, (Vec<MethodSig>, usize)> = Default::default();
    let mut trace: Vec<String> = vec![];
    let asy = if fam.async_trait { "true" } else { "false" };
    let fut = if fam.revs.iter().any(|r| r.methods.iter().any(|m| matches!(m.ret, RetKind::Future(_)))) { "true" } else { "false" };
    let outcome = |e: &str| if e.starts_with("PANIC") { "panic" } else { "err" };
    // position in the compatible chain
    let mut cur: Option<usize> = None;
    if let Some(s) = seq.start {
        let r = compat[s];
        let scratch = TempDir::new("pre");
        match drivers[r].verify_ledger(scratch.path()) {
            Ok(()) => {
                for f in scratch.files() {
                    let _ = std::fs::copy(scratch.0.join(&f), dir.0.join(&f));
                }
                for v in 0..=fam.revs[r].version {
                    recorded.insert(v, (fam.definition_at(r, v), r));
                }
                trace.push(format!("pre-populated with the files of {}: {:?}", rev_label(fam, r), dir.files()));
                cur = Some(s);
            }
            Err(e) => {
                fails.push(fail(
                    &[("check", "ledger_first_run_rejected"), ("async_trait", asy), ("interface_returns_boxed_future", fut), ("outcome", outcome(&e))],
                    format!("the first run of {} over an empty directory failed: {}", rev_label(fam, r), e),
                    json!({"family": fam.name}),
                ));
                return fails;
            }
        }
    }
    let mut prev_rev: Option<usize> = seq.start.map(|s| compat[s]);
    let mut ok_revs: std::collections::BTreeSet<usize> = prev_rev.into_iter().collect();
    let mut had_repeat = false;
    let mut had_edit = false;
    for (si, step) in seq.steps.iter().enumerate() {
        let rev = match step {
            Step::Repeat => prev_rev.unwrap_or(compat[0]),
            Step::Advance => {
                let n = match cur {
                    None => 0,
                    Some(c) => (c + 1).min(compat.len() - 1),
                };
                cur = Some(n);
                compat[n]
            }
            Step::Back => {
                let n = cur.unwrap_or(0).saturating_sub(1);
                cur = Some(n);
                compat[n]
            }
            Step::Breaking(k) => {
                if breaking.is_empty() {
                    prev_rev.unwrap_or(compat[0])
                } else {
                    breaking[k % breaking.len()]
                }
            }
        };
        if cur.is_none() && !fam.revs[rev].is_breaking() {
            cur = compat.iter().position(|c| *c == rev);
        }
        if Some(rev) == prev_rev {
            had_repeat = true;
        } else if prev_rev.is_some() {
            had_edit = true;
        }
        // model: the revision is acceptable iff it is backward compatible with every recorded version
        let latest = fam.revs[rev].version;
        let mut expect: Result<(), String> = Ok(());
        for v in 0..=latest {
            if let Some((old, from)) = recorded.get(&v) {
                if let Err(why) = backward_compatible(&fam.definition_at(rev, v), old) {
                    expect = Err(format!("version {} (recorded from {}): {}", v, fam.revs[*from].module, why));
                    break;
                }
            }
        }
        let got = drivers[rev].verify_ledger(dir.path());
        trace.push(format!(
            "run {}: {} -> {} (model: {})",
            si,
            rev_label(fam, rev),
            match &got {
                Ok(()) => "Ok".to_string(),
                Err(e) => format!("Err({})", e.chars().take(220).collect::<String>()),
            },
            match &expect {
                Ok(()) => "Ok".to_string(),
                Err(e) => format!("Err: {}", e),
            }
        ));
        let extra = || json!({"family": fam.name, "trace": trace, "files": dir.files()});
        match (&expect, &got) {
            (Ok(()), Ok(())) => {
                for v in 0..=latest {
                    recorded.entry(v).or_insert_with(|| (fam.definition_at(rev, v), rev));
                }
                ok_revs.insert(rev);
                let want: Vec<String> = {
                    let mut w: Vec<String> = recorded.keys().map(|v| file_name(fam, *v)).collect();
                    w.sort();
                    w
                };
                if dir.files() != want {
                    fails.push(fail(
                        &[("check", "ledger_files"), ("async_trait", asy)],
                        format!("after run {} the directory holds {:?}, expected one file per version seen: {:?}", si, dir.files(), want),
                        extra(),
                    ));
                }
            }
            (Err(_), Err(_)) => {}
            (Ok(()), Err(e)) => {
                let unchanged = ok_revs.contains(&rev);
                if unchanged {
                    fails.push(fail(
                        &[("check", "ledger_rerun_of_unchanged_interface_rejected"), ("async_trait", asy), ("interface_returns_boxed_future", fut), ("outcome", outcome(e))],
                        format!("run {}: {} was accepted before and is unchanged, but is now rejected: {}", si, rev_label(fam, rev), e),
                        extra(),
                    ));
                } else {
                    let mut ed = fam.revs[rev].edits.clone();
                    ed.sort();
                    ed.dedup();
                    fails.push(fail(
                        &[("check", "ledger_compatible_revision_rejected"), ("async_trait", asy), ("interface_returns_boxed_future", fut), ("outcome", outcome(e))],
                        format!("run {}: {} (edits {}) is backward compatible with every recorded version but was rejected: {}", si, rev_label(fam, rev), ed.join("+"), e),
                        extra(),
                    ));
                }
            }
            (Err(why), Ok(())) => {
                let bk = match &fam.revs[rev].label {
                    RevLabel::Breaking { kind, .. } => kind.label(),
                    RevLabel::Compat => "older_revision_lacks_recorded_method",
                };
                fails.push(fail(
                    &[("check", "ledger_breaking_change_accepted"), ("break_kind", bk), ("async_trait", asy)],
                    format!("run {}: {} breaks a recorded version ({}) but was accepted", si, rev_label(fam, rev), why),
                    extra(),
                ));
            }
        }
        // files created by a failing run (versions before the failing one) are recorded as seen
        if got.is_err() {
            let present = dir.files();
            for v in 0..=latest {
                if !recorded.contains_key(&v) && present.contains(&file_name(fam, v)) {
                    recorded.insert(v, (fam.definition_at(rev, v), rev));
                }
            }
        }
        prev_rev = Some(rev);
    }
    if counting {
        st.evaluations += 1;
        st.class_n("runs", seq.steps.len() as u64);
        st.class(if seq.start.is_some() { "start.populated" } else { "start.empty" });
        for s in &seq.steps {
            st.class(match s {
                Step::Repeat => "step.repeat",
                Step::Advance => "step.advance",
                Step::Breaking(_) => "step.breaking",
                Step::Back => "step.back",
            });
        }
        if fam.async_trait {
            st.class("family.async_trait");
        }
        let runs = seq.steps.len() + seq.start.is_some() as usize;
        if runs >= 2 && (had_repeat || had_edit) {
            st.nontrivial.insert(vcore::rng::fnv64(format!("{}/{:?}", fam.name, seq).as_bytes()));
        }
        if st.samples.is_empty() && seq.steps.len() >= 3 {
            st.sample(json!({"family": fam.name, "revisions": (0..fam.revs.len()).map(|r| rev_label(fam, r)).collect::<Vec<_>>(), "sequence": trace}));
        }
    }
    fails
}

pub fn replay_value(fam: &Family, seq: &Seq, f: &Fail) -> Value {
    json!({
        "kind": "C15",
        "family": fam.name,
        "revisions": (0..fam.revs.len()).map(|r| render_rev(fam, r)).collect::<Vec<_>>(),
        "defs": render_defs(fam),
        "seq": seq,
        "failure": f.detail,
        "observed": f.extra,
    })
}
