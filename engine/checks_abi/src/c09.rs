//! C09: ABI calls are transparent. Differential oracle: the same generated call program is run
//! against the recording implementation directly (`Box<dyn Trait>`) and through
//! `AbiConnection::from_boxed_trait`; logs, return values, closure traces and the drop ledger
//! must agree; scripted panics must reach the caller with their message and leave the
//! connection usable.

use crate::*;
use abigen::script::*;
use abigen::strat::{call_spec, CallOpts};
use abirt::{Conn, ConnMode, Ctx};
use proptest::prelude::*;
use serde::{Deserialize, Serialize};

#[derive(Clone, Debug, Serialize, Deserialize)]
pub enum Op {
    Connect,
    Call { conn: usize, spec: CallSpec },
    Drop { conn: usize },
}

pub fn program_strategy(fam: &Arc<Family>, rev: usize, force_panic: Option<PanicKind>) -> BoxedStrategy<Vec<Op>> {
    let o = CallOpts { panic_rate: 12, force_panic };
    let calls: Vec<BoxedStrategy<CallSpec>> = fam.revs[rev].methods.iter().map(|m| call_spec(fam, rev, rev, &m.name, o)).collect();
    let call = proptest::strategy::Union::new(calls);
    let op = prop_oneof![
        1 => Just(Op::Connect),
        10 => (0usize..3, call).prop_map(|(conn, spec)| Op::Call { conn, spec }),
        1 => (0usize..3).prop_map(|conn| Op::Drop { conn }),
    ];
    let max = if force_panic.is_some() { 3 } else { 8 };
    proptest::collection::vec(op, 1..=max).boxed()
}

#[derive(Clone, Debug, Serialize, Deserialize)]
pub struct RunResult {
    /// per op: result of a call (None for connect / drop)
    pub outs: Vec<Option<RetOut>>,
    /// per panicking call: result of repeating the call without the scripted panic
    pub after_panic: Vec<(usize, RetOut)>,
    pub events: Vec<Ev>,
    pub ledger: Vec<TokenRec>,
    pub connect_errors: Vec<String>,
    /// per call op: bit mask of arguments passable by reference (ABI mode)
    pub by_ref: Vec<Option<Vec<bool>>>,
}

#[derive(Clone, Debug, Serialize, Deserialize)]
pub struct TokenRec {
    pub label: String,
    pub drops: u32,
}

pub type Srv<'a> = crate::iso::Server<'a, (Vec<Op>, bool), RunResult>;

/// programs run in a child process (crash / hang of the code under test is captured as data)
pub fn server<'a>(c: &'a Case<'a>) -> Srv<'a> {
    crate::iso::Server::new(20_000, move |(ops, abi): (Vec<Op>, bool), fd| run_program(c.fam, c.rev, c.drv, &ops, if abi { ConnMode::Abi } else { ConnMode::Direct }, fd))
}

pub fn run_program(fam: &Family, rev: usize, drv: &dyn Driver, ops: &[Op], mode: ConnMode, sink_fd: i32) -> RunResult {
    let ctx = Ctx::new();
    ctx.sink_fd.store(sink_fd, std::sync::atomic::Ordering::Relaxed);
    let mut conns: Vec<Box<dyn Conn>> = vec![];
    let mut res = RunResult { outs: vec![], after_panic: vec![], events: vec![], ledger: vec![], connect_errors: vec![], by_ref: vec![] };
    let connect = |conns: &mut Vec<Box<dyn Conn>>, res: &mut RunResult| match drv.connect(&ctx, mode) {
        Ok(c) => {
            ctx.ev("harness.connect", &[conns.len() as u64], vec![]);
            conns.push(c)
        }
        Err(e) => res.connect_errors.push(e),
    };
    for (oi, op) in ops.iter().enumerate() {
        match op {
            Op::Connect => {
                if conns.len() < 3 {
                    connect(&mut conns, &mut res);
                }
                res.outs.push(None);
                res.by_ref.push(None);
            }
            Op::Drop { conn } => {
                if !conns.is_empty() {
                    let i = conn % conns.len();
                    ctx.ev("harness.drop", &[i as u64], vec![]);
                    drop(conns.remove(i));
                }
                res.outs.push(None);
                res.by_ref.push(None);
            }
            Op::Call { conn, spec } => {
                if conns.is_empty() {
                    connect(&mut conns, &mut res);
                }
                if conns.is_empty() {
                    res.outs.push(None);
                    res.by_ref.push(None);
                    continue;
                }
                let i = conn % conns.len();
                ctx.ev("harness.call", &[i as u64], vec![]);
                let m = fam.revs[rev].method(&spec.method).map(|x| x.1);
                res.by_ref.push(m.map(|m| (0..m.args.len()).map(|a| conns[i].passable_by_ref(&spec.method, a).unwrap_or(false)).collect()));
                let out = conns[i].call(spec);
                if matches!(out, RetOut::Panic(_)) {
                    // the connection must stay usable: same call again, without the scripted panic
                    let mut again = spec.clone();
                    again.imp.panic = None;
                    ctx.ev("harness.call_after_panic", &[i as u64], vec![]);
                    let o2 = conns[i].call(&again);
                    res.after_panic.push((oi, o2));
                }
                res.outs.push(Some(out));
            }
        }
    }
    ctx.ev("harness.end", &[], vec![]);
    drop(conns);
    res.events = ctx.events();
    res.ledger = ctx.ledger().into_iter().map(|t| TokenRec { label: t.label, drops: t.drops }).collect();
    res
}

fn event_class(k: &str) -> &'static str {
    if k.starts_with("impl.call") {
        "arguments_observed_by_implementation"
    } else if k == "impl.cb_result" {
        "callback_result_seen_by_implementation"
    } else if k == "caller.closure" {
        "closure_invocation_at_caller"
    } else if k.starts_with("obj.") {
        "trait_object_invocation"
    } else if k == "retfn.invoked" || k.starts_with("caller.ret_") {
        "returned_closure_or_object"
    } else if k == "future.ready" {
        "future"
    } else {
        "harness"
    }
}

fn ty_kind(t: &DTy) -> &'static str {
    match t {
        DTy::Prim(_) => "prim",
        DTy::Str => "string",
        DTy::Unit => "unit",
        DTy::Opt(_) => "option",
        DTy::Vec(_) => "vec",
        DTy::Tuple(_) => "tuple",
        DTy::Boxed(_) => "box",
        DTy::Def(_) => "def",
    }
}

/// approximate number of bytes the caller writes into the argument buffer
fn arg_bytes(fam: &Family, rev: usize, spec: &CallSpec, by_ref: &[bool]) -> (usize, bool) {
    let v = fam.revs[rev].version;
    let Some((_, m)) = fam.revs[rev].method(&spec.method) else { return (0, false) };
    let mut total = 4;
    let mut all_prims = true;
    for (i, a) in m.args.iter().enumerate() {
        total += match &a.kind {
            ArgKind::Val(t) => {
                if !matches!(t, DTy::Prim(_)) {
                    all_prims = false;
                }
                fam.wire_len(t, &spec.args[i], v)
            }
            ArgKind::Ref(t) => {
                all_prims = false;
                if by_ref.get(i).copied().unwrap_or(false) {
                    8
                } else {
                    fam.wire_len(t, &spec.args[i], v)
                }
            }
            ArgKind::StrRef => {
                all_prims = false;
                16
            }
            ArgKind::Slice(t) => {
                all_prims = false;
                fam.wire_len(&DTy::Vec(Box::new(t.clone())), &spec.args[i], v)
            }
            _ => 24,
        };
    }
    (total, all_prims)
}

fn delivery(m: &Method) -> &'static str {
    if m.is_async {
        "async_trait"
    } else if matches!(m.ret, RetKind::Future(_)) {
        "boxed_future"
    } else {
        "sync"
    }
}

fn ret_differs(fam: &Family, rev: usize, m: &Method, spec: &CallSpec, x: &DV, y: &DV, oi: usize) -> Fail {
    // does the returned type contain fields / variants introduced after version 0
    let k = fam.revs[rev].version;
    let versioned = match m.ret.script_ty() {
        ScriptTy::Data(t) => !fam.edits_between(&t, 0, k).is_empty(),
        ScriptTy::Res(a, b) => !fam.edits_between(&a, 0, k).is_empty() || !fam.edits_between(&b, 0, k).is_empty(),
        ScriptTy::ObjId => false,
    };
    fail(
        &[("check", "return_value_differs"), ("ret_kind", m.ret.label()), ("delivery", delivery(m)), ("ret_type_has_versioned_parts", if versioned { "true" } else { "false" })],
        format!("{}: direct returned {} but the ABI connection returned {}", spec.method, x.render(), y.render()),
        json!({"family": fam.name, "revision": fam.revs[rev].module, "observed": {"op": oi, "direct": x, "abi": y}}),
    )
}

pub struct Case<'a> {
    pub fam: &'a Arc<Family>,
    pub rev: usize,
    pub drv: &'a dyn Driver,
    /// may this unit contribute rendered samples to the evidence
    pub sample: bool,
}

/// Evaluate all C09 oracles on one program.
pub fn eval(c: &Case, srv: &mut Srv, ops: &[Op], st: &mut Stats, counting: bool) -> Vec<Fail> {
    use crate::iso::Iso;
    let fam = c.fam;
    let mut fails = vec![];
    let d = match srv.call(&(ops.to_vec(), false)) {
        Iso::Done(r) => r,
        other => {
            fails.push(fail(&[("check", "HARNESS_direct_run_failed")], format!("direct execution did not complete: {:?}", other).chars().take(600).collect(), json!(null)));
            return fails;
        }
    };
    let a = match srv.call(&(ops.to_vec(), true)) {
        Iso::Done(r) => r,
        Iso::Crashed { signal, exit, stderr, streamed } => {
            let cause = if stderr.contains("memory allocation of") || stderr.contains("capacity overflow") {
                "absurd_allocation"
            } else if stderr.contains("non-unwinding panic") || stderr.contains("cannot unwind") {
                "panic_in_extern_c_function"
            } else if signal == libc::SIGSEGV || signal == libc::SIGBUS {
                "memory_fault"
            } else {
                "other"
            };
            let evs: Vec<Ev> = streamed.iter().filter_map(|l| serde_json::from_str(l).ok()).collect();
            let last = evs.iter().rev().find(|e| !e.k.starts_with("harness")).map(|e| event_class(&e.k)).unwrap_or("none");
            fails.push(fail(
                &[("check", "process_abort"), ("cause", cause), ("last_event", last)],
                format!("the process died while the program ran through the ABI connection (signal {}, exit {}): {}", signal, exit, stderr.trim()),
                json!({"family": fam.name, "revision": fam.revs[c.rev].module, "signal": signal, "stderr": stderr, "events_before_death": render_events(&evs[evs.len().saturating_sub(12)..])}),
            ));
            if counting {
                st.evaluations += 1;
            }
            return fails;
        }
        Iso::TimedOut { stderr, .. } => {
            fails.push(fail(&[("check", "HARNESS_case_timeout")], format!("program did not finish within 20 s through the ABI connection (hang is inconclusive, not a verdict): {}", stderr), json!(null)));
            return fails;
        }
        Iso::Harness(e) => {
            fails.push(fail(&[("check", "HARNESS_isolation")], e, json!(null)));
            return fails;
        }
    };
    let ctxjson = |extra: Value| json!({"family": fam.name, "revision": fam.revs[c.rev].module, "observed": extra});

    // harness self-checks on the direct run (a failure here is a harness problem, not a verdict)
    for t in &d.ledger {
        if t.drops != 1 {
            fails.push(fail(&[("check", "HARNESS_direct_ledger")], format!("direct run: token {} dropped {} times", t.label, t.drops), json!(null)));
        }
    }
    if !d.connect_errors.is_empty() {
        fails.push(fail(&[("check", "HARNESS_direct_connect")], format!("{:?}", d.connect_errors), json!(null)));
    }
    if !a.connect_errors.is_empty() {
        fails.push(fail(
            &[("check", "connection_creation_failed"), ("mode", "same_revision")],
            format!("AbiConnection::from_boxed_trait failed: {:?}", a.connect_errors),
            ctxjson(json!(a.connect_errors)),
        ));
        return fails;
    }

    // return values / panics
    for (oi, (od, oa)) in d.outs.iter().zip(a.outs.iter()).enumerate() {
        let (Some(od), Some(oa)) = (od, oa) else { continue };
        let Op::Call { spec, .. } = &ops[oi] else { continue };
        let m = fam.revs[c.rev].method(&spec.method).unwrap().1;
        match (od, oa) {
            (RetOut::Val(x), RetOut::Val(y)) => {
                if x != y {
                    fails.push(ret_differs(fam, c.rev, m, spec, x, y, oi));
                }
            }
            (RetOut::Panic(td), RetOut::Panic(ta)) => {
                let p = spec.imp.panic.as_ref();
                match p.and_then(|p| p.expected_text()) {
                    Some(want) => {
                        if !td.contains(&want) {
                            fails.push(fail(&[("check", "HARNESS_direct_panic_text")], format!("direct panic text {:?} lacks {:?}", td, want), json!(null)));
                        } else if !ta.contains(&want) {
                            fails.push(fail(
                                &[("check", "panic_message_lost"), ("payload_kind", p.unwrap().kind.label())],
                                format!("{}: implementation panicked with message {:?}; the caller's panic carries {:?}", spec.method, want, ta),
                                ctxjson(json!({"op": oi, "expected_text": want, "caller_panic": ta})),
                            ));
                        }
                    }
                    None => {
                        if p.is_none() {
                            // unscripted panic in both modes: generator / harness problem
                            fails.push(fail(&[("check", "HARNESS_unscripted_panic")], format!("{}: direct call panicked: {}", spec.method, td), json!(null)));
                        }
                    }
                }
            }
            (RetOut::Val(x), RetOut::Panic(t)) => fails.push(fail(
                &[("check", "unexpected_panic_through_abi"), ("ret_kind", m.ret.label())],
                format!("{}: direct call returned {} but the call through the ABI connection panicked: {}", spec.method, x.render(), t),
                ctxjson(json!({"op": oi, "panic": t})),
            )),
            (RetOut::Panic(t), RetOut::Val(y)) => {
                if spec.imp.panic.is_some() {
                    fails.push(fail(
                        &[("check", "panic_swallowed"), ("payload_kind", spec.imp.panic.as_ref().unwrap().kind.label())],
                        format!("{}: implementation panicked ({}) but the caller received {}", spec.method, t, y.render()),
                        ctxjson(json!({"op": oi})),
                    ));
                } else {
                    fails.push(fail(&[("check", "HARNESS_unscripted_panic")], format!("{}: direct call panicked: {}", spec.method, t), json!(null)));
                }
            }
        }
    }
    // usable after a panic
    for ((oi, od), (_, oa)) in d.after_panic.iter().zip(a.after_panic.iter()) {
        let Op::Call { spec, .. } = &ops[*oi] else { continue };
        let kind = spec.imp.panic.as_ref().map(|p| p.kind.label()).unwrap_or("none");
        match (od, oa) {
            (RetOut::Val(x), RetOut::Val(y)) if x == y => {}
            (RetOut::Val(x), RetOut::Val(y)) => {
                let m = fam.revs[c.rev].method(&spec.method).unwrap().1;
                fails.push(ret_differs(fam, c.rev, m, spec, x, y, *oi))
            }
            (RetOut::Val(_), _) => fails.push(fail(
                &[("check", "connection_unusable_after_panic"), ("payload_kind", kind)],
                format!("{}: the call repeated after a panic gave {} through the ABI connection", spec.method, oa.render()),
                ctxjson(json!({"op": oi})),
            )),
            _ => fails.push(fail(&[("check", "HARNESS_call_after_panic")], format!("direct: {}", od.render()), json!(null))),
        }
    }
    if d.after_panic.len() != a.after_panic.len() && fails.is_empty() {
        fails.push(fail(&[("check", "HARNESS_panic_count")], "different number of panics without a reported difference".into(), json!(null)));
    }

    // complete event logs (implementation log, closure traces, object traces)
    if fails.is_empty() || fails.iter().all(|f| f.sig["check"] == "panic_message_lost") {
        let n = d.events.len().min(a.events.len());
        let first = (0..n).find(|i| d.events[*i] != a.events[*i]);
        let first = first.or(if d.events.len() != a.events.len() { Some(n) } else { None });
        if let Some(i) = first {
            let (ed, ea) = (d.events.get(i), a.events.get(i));
            let k = ed.or(ea).map(|e| e.k.clone()).unwrap_or_default();
            let mut pairs: Vec<(String, String)> = vec![("check".into(), "log_differs".into()), ("event".into(), event_class(&k).into())];
            // which argument differs: its passing kind and type
            if let (Some(ed), Some(ea)) = (ed, ea) {
                if ed.k == ea.k && ed.k.starts_with("impl.call:") {
                    let name = &ed.k["impl.call:".len()..];
                    if let Some((_, m)) = fam.revs[c.rev].method(name) {
                        if let Some(ai) = (0..m.args.len()).find(|ai| ed.d.get(*ai) != ea.d.get(*ai)) {
                            pairs.push(("arg_kind".into(), m.args[ai].kind.label().into()));
                            if let Some(t) = m.args[ai].kind.data_ty() {
                                pairs.push(("arg_type".into(), ty_kind(&t).into()));
                            }
                        } else if ed.n != ea.n {
                            pairs.push(("arg_kind".into(), "call_counter".into()));
                        }
                    }
                }
            }
            let pr: Vec<(&str, &str)> = pairs.iter().map(|(a, b)| (a.as_str(), b.as_str())).collect();
            fails.push(fail(
                &pr,
                format!(
                    "event #{} differs: direct {} / abi {}",
                    i,
                    ed.map(|e| e.render()).unwrap_or("<none>".into()),
                    ea.map(|e| e.render()).unwrap_or("<none>".into())
                ),
                ctxjson(json!({"index": i, "direct_events": render_events(&d.events[i.saturating_sub(3)..]), "abi_events": render_events(&a.events[i.saturating_sub(3).min(a.events.len())..])})),
            ));
        }
    }
    // drop ledger: exactly one drop per owned object
    for (i, t) in a.ledger.iter().enumerate() {
        if t.drops != 1 {
            let obj = t.label.split(' ').next().unwrap_or("");
            fails.push(fail(
                &[("check", "drop_ledger"), ("object", obj), ("drops", if t.drops == 0 { "0" } else { "2+" })],
                format!("owned object #{} ({}) was dropped {} times through the ABI connection (exactly once when used directly)", i, t.label, t.drops),
                ctxjson(json!({"ledger": a.ledger.iter().map(|t| format!("{}:{}", t.label, t.drops)).collect::<Vec<_>>()})),
            ));
            break;
        }
    }
    if d.ledger.len() != a.ledger.len() && fails.is_empty() {
        fails.push(fail(
            &[("check", "drop_ledger"), ("object", "count"), ("drops", "n/a")],
            format!("{} owned objects were created in the direct run, {} through the ABI connection", d.ledger.len(), a.ledger.len()),
            ctxjson(json!(null)),
        ));
    }

    if counting {
        st.evaluations += 1;
        for (oi, op) in ops.iter().enumerate() {
            let Op::Call { spec, .. } = op else {
                st.class(match op {
                    Op::Connect => "op.connect",
                    _ => "op.drop",
                });
                continue;
            };
            st.class("op.call");
            let Some((mi, m)) = fam.revs[c.rev].method(&spec.method) else { continue };
            st.class(&format!("call.class.{}", m.class));
            let by_ref = a.by_ref.get(oi).cloned().flatten().unwrap_or_default();
            let (bytes, all_prims) = arg_bytes(fam, c.rev, spec, &by_ref);
            let bucket = if all_prims {
                "fixed_stack_buffer"
            } else if bytes < 56 {
                "inline"
            } else if bytes <= 64 {
                "inline_56_to_64"
            } else if bytes <= 72 {
                "spill_65_to_72"
            } else {
                "spill"
            };
            st.class(&format!("argbuf.{}", bucket));
            for (ai, arg) in m.args.iter().enumerate() {
                if matches!(arg.kind, ArgKind::Ref(_)) {
                    st.class(if by_ref.get(ai).copied().unwrap_or(false) { "ref_arg.passed_by_pointer" } else { "ref_arg.serialized" });
                }
            }
            match &spec.imp.panic {
                Some(p) => st.class(&format!("panic.{}", p.kind.label())),
                None => {}
            }
            let nontrivial = m.args.iter().any(|x| x.kind.is_callback() || !matches!(x.kind.data_ty(), Some(DTy::Prim(_)) | Some(DTy::Unit) | None)) || !m.ret.is_data();
            if nontrivial {
                let shape: Vec<u8> = m
                    .args
                    .iter()
                    .enumerate()
                    .map(|(ai, x)| match (&spec.args[ai], x.kind.is_callback()) {
                        (_, true) => spec.imp.plans.get(ai).map(|p| p.len() as u8).unwrap_or(0) + 100,
                        (DV::S(s), _) => (s.len().min(80) / 8) as u8,
                        (DV::L(l), _) => (l.len().min(40) / 2) as u8 + 20,
                        (DV::V(i, _), _) => *i as u8 + 60,
                        _ => 0,
                    })
                    .collect();
                let fp = vcore::rng::fnv64(format!("{}/{}/{}/{:?}/{:?}/{}/{:?}", fam.name, c.rev, mi, shape, by_ref, bucket, spec.imp.panic.as_ref().map(|p| p.kind)).as_bytes());
                st.nontrivial.insert(fp);
            }
        }
        if c.sample && st.samples.len() < 1 && ops.iter().filter(|o| matches!(o, Op::Call { .. })).count() >= 2 {
            st.sample(json!({
                "interface": render_rev(fam, c.rev),
                "program": ops.iter().map(render_op).collect::<Vec<_>>(),
                "direct_results": d.outs.iter().flatten().map(|o| o.render()).collect::<Vec<_>>(),
                "abi_results": a.outs.iter().flatten().map(|o| o.render()).collect::<Vec<_>>(),
                "events_compared": d.events.len(),
                "owned_objects_in_ledger": a.ledger.len(),
            }));
        }
    }
    fails
}

pub fn render_op(op: &Op) -> String {
    match op {
        Op::Connect => "connect".into(),
        Op::Drop { conn } => format!("drop(conn {})", conn),
        Op::Call { conn, spec } => format!(
            "conn {}: {}({}) impl-script{{ret {}, panic {:?}, callbacks {:?}}} caller-script{{closure returns {:?}, returned-object calls {}}}",
            conn,
            spec.method,
            spec.args.iter().map(|a| a.render()).collect::<Vec<_>>().join(", "),
            spec.imp.ret.render(),
            spec.imp.panic.as_ref().map(|p| (p.kind.label(), p.expected_text())),
            spec.imp.plans.iter().map(|p| p.len()).collect::<Vec<_>>(),
            spec.caller.closure_rets.iter().map(|r| r.iter().map(|x| x.render()).collect::<Vec<_>>()).collect::<Vec<_>>(),
            spec.caller.ret_calls.len()
        ),
    }
}

pub fn replay_value(fam: &Family, rev: usize, ops: &[Op], f: &Fail) -> Value {
    json!({
        "kind": "C09",
        "family": fam.name,
        "revision": fam.revs[rev].module,
        "interface": render_rev(fam, rev),
        "defs": render_defs(fam),
        "ops": ops,
        "program": ops.iter().map(render_op).collect::<Vec<_>>(),
        "failure": f.detail,
        "observed": f.extra,
    })
}
