//! Run cases in a forked child process so that an abort of the code under test (allocation
//! failure on a misparsed length, panic inside an `extern "C"` callback, segfault) is captured
//! as data instead of killing the worker. The child is a small server: it is forked once,
//! executes one request per line and is re-forked only after it died (fork costs milliseconds
//! here). The worker is single-threaded, so no lock of the parent is held across `fork`.

use serde::de::DeserializeOwned;
use serde::Serialize;
use std::io::{BufRead, BufReader, Write};
use std::os::fd::FromRawFd;

#[derive(Clone, Debug)]
pub enum Iso<T> {
    Done(T),
    /// the child died: signal number (0 = non-zero exit), tail of its stderr, and the `E` lines
    /// it had streamed before dying
    Crashed { signal: i32, exit: i32, stderr: String, streamed: Vec<String> },
    /// the child did not finish in time (killed)
    TimedOut { stderr: String, streamed: Vec<String> },
    /// fork / pipe / decode problem of the harness
    Harness(String),
}

struct Child {
    pid: i32,
    to_child: i32,
    from_child: i32,
    err: i32,
    out_buf: Vec<u8>,
    err_buf: Vec<u8>,
}

pub struct Server<'a, Req, Resp> {
    handler: Box<dyn Fn(Req, i32) -> Resp + 'a>,
    child: Option<Child>,
    pub timeout_ms: i64,
    pub forks: u64,
    /// called with the pid of a child that exceeded the timeout, before it is killed; its
    /// return value is handed out in `TimedOut::stderr`'s place of honour (`examination`)
    pub on_timeout: Option<Box<dyn FnMut(i32) -> String + 'a>>,
    pub last_examination: Option<String>,
}

fn close(fd: i32) {
    unsafe {
        libc::close(fd);
    }
}

impl Drop for Child {
    fn drop(&mut self) {
        close(self.to_child);
        close(self.from_child);
        close(self.err);
        let mut status = 0i32;
        if self.pid > 0 {
            unsafe {
                libc::kill(self.pid, libc::SIGKILL);
                libc::waitpid(self.pid, &mut status, 0);
            }
        }
    }
}

impl<'a, Req: Serialize + DeserializeOwned, Resp: Serialize + DeserializeOwned> Server<'a, Req, Resp> {
    /// `handler(request, sink_fd)`: may stream lines starting with `E ` to `sink_fd` while running
    pub fn new(timeout_ms: i64, handler: impl Fn(Req, i32) -> Resp + 'a) -> Self {
        Server { handler: Box::new(handler), child: None, timeout_ms, forks: 0, on_timeout: None, last_examination: None }
    }

    fn spawn(&mut self) -> Result<(), String> {
        let mut req_p = [0i32; 2];
        let mut out_p = [0i32; 2];
        let mut err_p = [0i32; 2];
        unsafe {
            if libc::pipe(req_p.as_mut_ptr()) != 0 || libc::pipe(out_p.as_mut_ptr()) != 0 || libc::pipe(err_p.as_mut_ptr()) != 0 {
                return Err("pipe failed".into());
            }
        }
        let pid = unsafe { libc::fork() };
        if pid < 0 {
            return Err("fork failed".into());
        }
        if pid == 0 {
            unsafe {
                libc::close(req_p[1]);
                libc::close(out_p[0]);
                libc::close(err_p[0]);
                libc::dup2(err_p[1], 2);
                libc::close(err_p[1]);
                // a misparsed length must fail fast instead of zero-filling gigabytes
                // (limit = current address space + 64 MiB; cases need kilobytes)
                let pages: u64 = std::fs::read_to_string("/proc/self/statm").ok().and_then(|s| s.split(' ').next().and_then(|x| x.parse().ok())).unwrap_or(65536);
                let cur = pages * 4096 + (64 << 20);
                let lim = libc::rlimit { rlim_cur: cur, rlim_max: cur };
                libc::setrlimit(libc::RLIMIT_AS, &lim);
            }
            let inp = unsafe { std::fs::File::from_raw_fd(req_p[0]) };
            let mut outp = std::mem::ManuallyDrop::new(unsafe { std::fs::File::from_raw_fd(out_p[1]) });
            for line in BufReader::new(inp).lines() {
                let Ok(line) = line else { break };
                let Ok(req) = serde_json::from_str::<Req>(&line) else {
                    let _ = writeln!(outp, "X bad request");
                    continue;
                };
                let resp = (self.handler)(req, out_p[1]);
                let mut bytes = b"R ".to_vec();
                bytes.extend(serde_json::to_vec(&resp).unwrap_or_default());
                bytes.push(b'\n');
                if outp.write_all(&bytes).is_err() {
                    break;
                }
            }
            unsafe { libc::_exit(0) };
        }
        close(req_p[0]);
        close(out_p[1]);
        close(err_p[1]);
        self.forks += 1;
        self.child = Some(Child { pid, to_child: req_p[1], from_child: out_p[0], err: err_p[0], out_buf: vec![], err_buf: vec![] });
        Ok(())
    }

    pub fn call(&mut self, req: &Req) -> Iso<Resp> {
        if self.child.is_none() {
            if let Err(e) = self.spawn() {
                return Iso::Harness(e);
            }
        }
        let timeout_ms = self.timeout_ms;
        let ch = self.child.as_mut().unwrap();
        ch.out_buf.clear();
        ch.err_buf.clear();
        let mut line = serde_json::to_vec(req).unwrap();
        line.push(b'\n');
        let mut off = 0;
        while off < line.len() {
            let n = unsafe { libc::write(ch.to_child, line[off..].as_ptr() as *const libc::c_void, line.len() - off) };
            if n <= 0 {
                break;
            }
            off += n as usize;
        }
        let start = std::time::Instant::now();
        let mut eof = false;
        let mut timed_out = false;
        let mut result: Option<String> = None;
        let mut streamed: Vec<String> = vec![];
        let mut scanned = 0usize;
        'outer: loop {
            // complete lines received so far
            while let Some(pos) = ch.out_buf[scanned..].iter().position(|b| *b == b'\n') {
                let l = String::from_utf8_lossy(&ch.out_buf[scanned..scanned + pos]).to_string();
                scanned += pos + 1;
                if let Some(e) = l.strip_prefix("E ") {
                    streamed.push(e.to_string());
                } else if let Some(r) = l.strip_prefix("R ") {
                    result = Some(r.to_string());
                    break 'outer;
                } else if l.starts_with("X ") {
                    return Iso::Harness(l);
                }
            }
            if eof {
                break;
            }
            let left = timeout_ms - start.elapsed().as_millis() as i64;
            if left <= 0 {
                timed_out = true;
                break;
            }
            let mut pfds = [libc::pollfd { fd: ch.from_child, events: libc::POLLIN, revents: 0 }, libc::pollfd { fd: ch.err, events: libc::POLLIN, revents: 0 }];
            let r = unsafe { libc::poll(pfds.as_mut_ptr(), 2, left.min(1000) as i32) };
            if r <= 0 {
                continue;
            }
            let mut buf = [0u8; 65536];
            if pfds[1].revents != 0 {
                let n = unsafe { libc::read(ch.err, buf.as_mut_ptr() as *mut libc::c_void, buf.len()) };
                if n > 0 {
                    ch.err_buf.extend_from_slice(&buf[..n as usize]);
                }
            }
            if pfds[0].revents != 0 {
                let n = unsafe { libc::read(ch.from_child, buf.as_mut_ptr() as *mut libc::c_void, buf.len()) };
                if n > 0 {
                    ch.out_buf.extend_from_slice(&buf[..n as usize]);
                } else if n == 0 {
                    eof = true;
                }
            }
        }
        if let Some(r) = result {
            return match serde_json::from_str::<Resp>(&r) {
                Ok(v) => Iso::Done(v),
                Err(e) => Iso::Harness(format!("cannot decode child result ({} bytes): {}", r.len(), e)),
            };
        }
        // the child died or hangs: collect what it wrote to stderr, reap it
        let mut ch = self.child.take().unwrap();
        if timed_out {
            if let Some(h) = self.on_timeout.as_mut() {
                self.last_examination = Some(h(ch.pid));
            }
            unsafe { libc::kill(ch.pid, libc::SIGKILL) };
        }
        let mut status = 0i32;
        unsafe { libc::waitpid(ch.pid, &mut status, 0) };
        // drain stderr (non-blocking: the writer is gone)
        loop {
            let mut pfd = [libc::pollfd { fd: ch.err, events: libc::POLLIN, revents: 0 }];
            let r = unsafe { libc::poll(pfd.as_mut_ptr(), 1, 0) };
            if r <= 0 {
                break;
            }
            let mut buf = [0u8; 65536];
            let n = unsafe { libc::read(ch.err, buf.as_mut_ptr() as *mut libc::c_void, buf.len()) };
            if n <= 0 {
                break;
            }
            ch.err_buf.extend_from_slice(&buf[..n as usize]);
        }
        let stderr: String = String::from_utf8_lossy(&ch.err_buf).chars().rev().take(600).collect::<Vec<_>>().into_iter().rev().collect();
        // already reaped: prevent the second kill/wait in Drop from touching a recycled pid
        ch.pid = -1;
        close(ch.to_child);
        close(ch.from_child);
        close(ch.err);
        std::mem::forget(ch);
        if timed_out {
            return Iso::TimedOut { stderr, streamed };
        }
        if libc::WIFSIGNALED(status) {
            Iso::Crashed { signal: libc::WTERMSIG(status), exit: 0, stderr, streamed }
        } else {
            Iso::Crashed { signal: 0, exit: libc::WEXITSTATUS(status), stderr, streamed }
        }
    }
}

/// One-shot variant: fork, run `f`, return its value.
pub fn isolated<T: Serialize + DeserializeOwned>(timeout_ms: i64, f: impl Fn(i32) -> T) -> Iso<T> {
    let mut s: Server<(), T> = Server::new(timeout_ms, |_, fd| f(fd));
    s.call(&())
}
