//! Run one case in a forked child process so that an abort of the code under test (allocation
//! failure on a misparsed length, panic inside an `extern "C"` callback, segfault) is captured
//! as data instead of killing the worker. The worker is single-threaded, so no lock of the
//! parent is held across `fork`.

use serde::de::DeserializeOwned;
use serde::Serialize;
use std::io::Read;
use std::os::fd::FromRawFd;

#[derive(Clone, Debug)]
pub enum Iso<T> {
    Done(T),
    /// the child died: signal number (0 = non-zero exit), tail of its stderr, and the `E` lines
    /// it had streamed before dying
    Crashed { signal: i32, exit: i32, stderr: String, streamed: Vec<String> },
    /// the child did not finish in time (killed)
    TimedOut { stderr: String },
    /// fork / pipe / decode problem of the harness
    Harness(String),
}

fn read_all_with_deadline(fds: &mut [(i32, Vec<u8>, bool)], timeout_ms: i64) -> bool {
    // returns false on timeout
    let start = std::time::Instant::now();
    loop {
        let mut pfds: Vec<libc::pollfd> = fds.iter().filter(|f| !f.2).map(|f| libc::pollfd { fd: f.0, events: libc::POLLIN, revents: 0 }).collect();
        if pfds.is_empty() {
            return true;
        }
        let left = timeout_ms - start.elapsed().as_millis() as i64;
        if left <= 0 {
            return false;
        }
        let r = unsafe { libc::poll(pfds.as_mut_ptr(), pfds.len() as libc::nfds_t, left.min(1000) as i32) };
        if r < 0 {
            continue;
        }
        for p in pfds {
            if p.revents != 0 {
                let f = fds.iter_mut().find(|f| f.0 == p.fd).unwrap();
                let mut buf = [0u8; 65536];
                let n = unsafe { libc::read(p.fd, buf.as_mut_ptr() as *mut libc::c_void, buf.len()) };
                if n > 0 {
                    f.1.extend_from_slice(&buf[..n as usize]);
                } else if n == 0 {
                    f.2 = true;
                } else {
                    let e = std::io::Error::last_os_error();
                    if e.kind() != std::io::ErrorKind::Interrupted && e.kind() != std::io::ErrorKind::WouldBlock {
                        f.2 = true;
                    }
                }
            }
        }
    }
}

/// `f` receives the file descriptor of the result pipe: it may stream lines starting with `E `
/// to it while it runs; its return value is appended as a final `R ` line.
pub fn isolated<T: Serialize + DeserializeOwned>(timeout_ms: i64, f: impl FnOnce(i32) -> T) -> Iso<T> {
    let mut out_p = [0i32; 2];
    let mut err_p = [0i32; 2];
    unsafe {
        if libc::pipe(out_p.as_mut_ptr()) != 0 || libc::pipe(err_p.as_mut_ptr()) != 0 {
            return Iso::Harness("pipe failed".into());
        }
    }
    let pid = unsafe { libc::fork() };
    if pid < 0 {
        return Iso::Harness("fork failed".into());
    }
    if pid == 0 {
        // child
        unsafe {
            libc::close(out_p[0]);
            libc::close(err_p[0]);
            libc::dup2(err_p[1], 2);
            libc::close(err_p[1]);
            // a misparsed length must fail fast instead of zero-filling gigabytes
            let lim = libc::rlimit { rlim_cur: 3 << 30, rlim_max: 3 << 30 };
            libc::setrlimit(libc::RLIMIT_AS, &lim);
        }
        let v = f(out_p[1]);
        let mut bytes = b"R ".to_vec();
        bytes.extend(serde_json::to_vec(&v).unwrap_or_default());
        bytes.push(b'\n');
        let mut off = 0;
        while off < bytes.len() {
            let n = unsafe { libc::write(out_p[1], bytes[off..].as_ptr() as *const libc::c_void, bytes.len() - off) };
            if n <= 0 {
                break;
            }
            off += n as usize;
        }
        unsafe { libc::_exit(0) };
    }
    unsafe {
        libc::close(out_p[1]);
        libc::close(err_p[1]);
    }
    let mut fds = [(out_p[0], Vec::new(), false), (err_p[0], Vec::new(), false)];
    let ok = read_all_with_deadline(&mut fds, timeout_ms);
    if !ok {
        unsafe { libc::kill(pid, libc::SIGKILL) };
    }
    let mut status = 0i32;
    unsafe { libc::waitpid(pid, &mut status, 0) };
    unsafe {
        // close through File to keep the fd handling uniform
        drop(std::fs::File::from_raw_fd(out_p[0]));
        drop(std::fs::File::from_raw_fd(err_p[0]));
    }
    let stderr: String = String::from_utf8_lossy(&fds[1].1).chars().rev().take(600).collect::<Vec<_>>().into_iter().rev().collect();
    if !ok {
        return Iso::TimedOut { stderr };
    }
    let text = String::from_utf8_lossy(&fds[0].1).to_string();
    let streamed: Vec<String> = text.lines().filter_map(|l| l.strip_prefix("E ")).map(|l| l.to_string()).collect();
    if libc::WIFSIGNALED(status) {
        return Iso::Crashed { signal: libc::WTERMSIG(status), exit: 0, stderr, streamed };
    }
    if libc::WIFEXITED(status) && libc::WEXITSTATUS(status) != 0 {
        return Iso::Crashed { signal: 0, exit: libc::WEXITSTATUS(status), stderr, streamed };
    }
    let Some(r) = text.lines().rev().find_map(|l| l.strip_prefix("R ")) else {
        return Iso::Harness(format!("child sent no result ({} bytes)", text.len()));
    };
    match serde_json::from_str::<T>(r) {
        Ok(v) => Iso::Done(v),
        Err(e) => Iso::Harness(format!("cannot decode child result ({} bytes): {}", r.len(), e)),
    }
}

#[allow(dead_code)]
fn _unused(_: &mut dyn Read) {}
