//! vcore: IR, typegen, emitter, reference model, strategies. No dependency on savefile.
pub mod rng;
pub mod ir;
pub mod dv;
pub mod enc;
pub mod gen;
pub mod emit;
pub mod strat;
pub mod rschema;
pub mod hist;
pub mod pairs;
pub use serde_json;
