//! proptest strategies for DV built at run time from the IR. All randomness of *values*
//! comes from proptest's RNG so that shrinking and replay work.

use crate::dv::DV;
use crate::ir::*;
use proptest::prelude::*;
use proptest::strategy::BoxedStrategy;
use std::sync::Arc;

#[derive(Clone, Copy, Debug)]
pub struct Opts {
    /// maximum collection length at the top nesting level
    pub max_len: usize,
    /// budget of Def expansions (bounds recursion of recursive defs)
    pub budget: usize,
    /// only generate enum variants that exist at this data version
    pub variants_at: Option<u32>,
}

impl Default for Opts {
    fn default() -> Self {
        Opts { max_len: 10, budget: 5, variants_at: None }
    }
}

fn prim(p: Prim) -> BoxedStrategy<DV> {
    let mask = p.mask();
    match p {
        Prim::Bool => prop_oneof![Just(DV::N(0)), Just(DV::N(1))].boxed(),
        Prim::Char => prop_oneof![
            4 => (0x20u32..0x7f).prop_map(|x| DV::N(x as u128)),
            3 => any::<char>().prop_map(|c| DV::N(c as u32 as u128)),
            1 => prop_oneof![Just(0u32), Just(0xD7FF), Just(0xE000), Just(0x10FFFF), Just(0x7F), Just(0x80), Just(0xFFFF)]
                .prop_map(|x| DV::N(x as u128)),
        ]
        .boxed(),
        Prim::F32 => prop_oneof![
            4 => any::<u32>().prop_map(|x| DV::N(x as u128)),
            2 => any::<f32>().prop_map(|x| DV::N(x.to_bits() as u128)),
            1 => prop_oneof![
                Just(0u32),
                Just(0x8000_0000),
                Just(0x7f80_0000),
                Just(0xff80_0000),
                Just(0x7fc0_0000),
                Just(0x7fa0_0001),
                Just(0xffff_ffff),
                Just(0x3f80_0000)
            ]
            .prop_map(|x| DV::N(x as u128)),
        ]
        .boxed(),
        Prim::F64 => prop_oneof![
            4 => any::<u64>().prop_map(|x| DV::N(x as u128)),
            2 => any::<f64>().prop_map(|x| DV::N(x.to_bits() as u128)),
            1 => prop_oneof![
                Just(0u64),
                Just(0x8000_0000_0000_0000),
                Just(0x7ff0_0000_0000_0000),
                Just(0xfff0_0000_0000_0000),
                Just(0x7ff8_0000_0000_0000),
                Just(0x7ff4_0000_0000_0001),
                Just(u64::MAX)
            ]
            .prop_map(|x| DV::N(x as u128)),
        ]
        .boxed(),
        _ => {
            let bits = p.bits();
            let signed_min = 1u128 << (bits - 1);
            prop_oneof![
                4 => any::<u128>().prop_map(move |x| DV::N(x & mask)),
                3 => (0u128..300).prop_map(move |x| DV::N(x & mask)),
                2 => prop_oneof![
                    Just(0u128),
                    Just(1u128),
                    Just(mask),            // MAX (unsigned) / -1 (signed)
                    Just(mask - 1),
                    Just(signed_min),      // MIN (signed)
                    Just(signed_min - 1),  // MAX (signed)
                    Just(0x11u128),
                    Just(0x0102_0304_0506_0708_090a_0b0c_0d0e_0f10u128 & mask),
                ]
                .prop_map(DV::N),
            ]
            .boxed()
        }
    }
}

pub fn string_strategy(max_bytes: usize) -> BoxedStrategy<String> {
    let m = max_bytes;
    prop_oneof![
        2 => Just(String::new()),
        5 => proptest::collection::vec(0x20u8..0x7f, 0..=m.min(24)).prop_map(|v| String::from_utf8(v).unwrap()),
        3 => proptest::collection::vec(any::<char>(), 0..=(m / 4).min(12)).prop_map(|v| v.into_iter().collect::<String>()),
        1 => proptest::collection::vec(0x61u8..0x7b, 0..=m.min(200)).prop_map(|v| String::from_utf8(v).unwrap()),
    ]
    .boxed()
}

fn len_range(max: usize) -> std::ops::RangeInclusive<usize> {
    0..=max
}

pub fn strategy(u: &Arc<Universe>, ty: &Ty, o: Opts) -> BoxedStrategy<DV> {
    let sub = |t: &Ty, o2: Opts| strategy(u, t, o2);
    let inner = Opts { max_len: (o.max_len / 3).max(if o.max_len == 0 { 0 } else { 2 }), ..o };
    match ty {
        Ty::Prim(p) => prim(*p),
        Ty::Str => string_strategy(200).prop_map(DV::S).boxed(),
        Ty::Unit => Just(DV::unit()).boxed(),
        Ty::Opt(a) => {
            if o.budget == 0 {
                return Just(DV::none()).boxed();
            }
            prop_oneof![1 => Just(DV::none()), 3 => sub(a, o).prop_map(DV::some)].boxed()
        }
        Ty::Res(a, b) => prop_oneof![
            sub(a, o).prop_map(|x| DV::V(1, vec![x])),
            sub(b, o).prop_map(|x| DV::V(0, vec![x]))
        ]
        .boxed(),
        Ty::Seq(k, a) => {
            if o.budget == 0 {
                return Just(DV::L(vec![])).boxed();
            }
            let mut max = o.max_len;
            if let SeqKind::ArrayVec(n) = k {
                max = max.min(*n);
            }
            // lengths around the 64-byte chunking of the element-wise vector writer
            let chunky = matches!(&**a, Ty::Prim(_)) && max >= 8 && !matches!(k, SeqKind::ArrayVec(_));
            if chunky {
                let sz = if let Ty::Prim(p) = &**a { p.wire_size() } else { 1 };
                let c = (64 / sz).max(1);
                prop_oneof![
                    6 => proptest::collection::vec(sub(a, inner), len_range(max)).prop_map(DV::L),
                    1 => proptest::collection::vec(sub(a, inner), (c - 1)..=(c + 1)).prop_map(DV::L),
                    1 => proptest::collection::vec(sub(a, inner), (2 * c - 1)..=(2 * c + 1)).prop_map(DV::L),
                ]
                .boxed()
            } else {
                proptest::collection::vec(sub(a, inner), len_range(max)).prop_map(DV::L).boxed()
            }
        }
        Ty::Set(_, a) => {
            if o.budget == 0 {
                return Just(DV::L(vec![])).boxed();
            }
            let max = o.max_len;
            proptest::collection::vec(sub(a, inner), len_range(max)).prop_map(DV::L).boxed()
        }
        Ty::Map(_, k, v) => {
            if o.budget == 0 {
                return Just(DV::L(vec![])).boxed();
            }
            let max = o.max_len;
            proptest::collection::vec((sub(k, inner), sub(v, inner)).prop_map(|(a, b)| DV::L(vec![a, b])), len_range(max))
                .prop_map(DV::L)
                .boxed()
        }
        Ty::Array(a, n) => proptest::collection::vec(sub(a, inner), *n..=*n).prop_map(DV::L).boxed(),
        Ty::Tuple(ts) => tuple_strategy(ts.iter().map(|t| sub(t, o)).collect()),
        Ty::Wrap(_, a) => sub(a, o),
        Ty::Range(a) => tuple_strategy(vec![sub(a, o), sub(a, o)]),
        Ty::Leaf(l) => leaf(*l),
        Ty::Def(i, args) => {
            let d = &u.defs[*i];
            let o2 = Opts { budget: o.budget.saturating_sub(1), ..o };
            match &d.kind {
                DefKind::Struct { fields, .. } => {
                    let fs: Vec<BoxedStrategy<DV>> = fields
                        .iter()
                        .filter(|f| f.is_live())
                        .map(|f| strategy(u, &Universe::subst(&f.ty, args), o2))
                        .collect();
                    tuple_strategy(fs)
                }
                DefKind::Enum { variants } => {
                    let mut alts: Vec<BoxedStrategy<DV>> = vec![];
                    for (vi, v) in variants.iter().enumerate() {
                        if let Some(at) = o.variants_at {
                            if at < v.vfrom || v.vto.map_or(false, |t| at > t) {
                                continue;
                            }
                        }
                        let fs: Vec<BoxedStrategy<DV>> = v
                            .fields
                            .iter()
                            .filter(|f| f.is_live())
                            .map(|f| strategy(u, &Universe::subst(&f.ty, args), o2))
                            .collect();
                        let vi = vi as u32;
                        alts.push(tuple_strategy(fs).prop_map(move |x| DV::V(vi, x.l().clone())).boxed());
                    }
                    if alts.len() > 24 {
                        // many variants: pick by index to keep the strategy tree small
                        let n = alts.len();
                        let alts = Arc::new(alts);
                        (0..n).prop_flat_map(move |k| alts[k].clone()).boxed()
                    } else {
                        proptest::strategy::Union::new(alts).boxed()
                    }
                }
            }
        }
        Ty::Param(_) => panic!("open type"),
    }
}

fn tuple_strategy(fs: Vec<BoxedStrategy<DV>>) -> BoxedStrategy<DV> {
    // a Vec<BoxedStrategy> is itself a strategy for Vec<value>
    fs.prop_map(DV::L).boxed()
}

fn leaf(l: Leaf) -> BoxedStrategy<DV> {
    match l {
        Leaf::ArcStr | Leaf::PathBuf | Leaf::CowStr => {
            prop_oneof![3 => string_strategy(60), 2 => prop_oneof![Just("a".to_string()), Just("dup".to_string()), Just("".to_string())]]
                .prop_map(DV::S)
                .boxed()
        }
        Leaf::ArrayString(n) => proptest::collection::vec(0x20u8..0x7f, 0..=n).prop_map(|v| DV::S(String::from_utf8(v).unwrap())).boxed(),
        Leaf::Duration => (prop_oneof![0u64..10, any::<u64>()], 0u32..1_000_000_000).prop_map(|(s, n)| DV::L(vec![DV::N(s as u128), DV::N(n as u128)])).boxed(),
        Leaf::SystemTime => (0u8..2, prop_oneof![0u64..10, (0u64..u32::MAX as u64), 0u64..(1u64 << 55)], 0u32..1_000_000_000)
            .prop_map(|(neg, s, n)| DV::L(vec![DV::N(neg as u128), DV::N(s as u128), DV::N(n as u128)]))
            .boxed(),
        Leaf::IpAddr => prop_oneof![
            any::<u32>().prop_map(|x| DV::V(0, vec![DV::N(x as u128)])),
            any::<u128>().prop_map(|x| DV::V(1, vec![DV::N(x)]))
        ]
        .boxed(),
        Leaf::SocketAddr => prop_oneof![
            (any::<u16>(), any::<u32>()).prop_map(|(p, x)| DV::V(0, vec![DV::N(p as u128), DV::N(x as u128)])),
            (any::<u16>(), any::<u128>(), any::<u32>(), any::<u32>())
                .prop_map(|(p, x, f, s)| DV::V(1, vec![DV::N(p as u128), DV::N(x), DV::N(f as u128), DV::N(s as u128)]))
        ]
        .boxed(),
        Leaf::BitVec | Leaf::BitVec08 => proptest::collection::vec(0u8..2, 0..=70).prop_map(|v| DV::L(v.into_iter().map(|b| DV::N(b as u128)).collect())).boxed(),
        Leaf::BitSet | Leaf::BitSet08 => proptest::collection::btree_set(0usize..200, 0..=12)
            .prop_map(|s| DV::L(s.into_iter().map(|b| DV::N(b as u128)).collect()))
            .boxed(),
        Leaf::Atomic(p) => prim(p),
        Leaf::Phantom | Leaf::Canary1 => Just(DV::unit()).boxed(),
        Leaf::IoError => (
            prop_oneof![
                Just(1u16), Just(2), Just(3), Just(4), Just(7), Just(8), Just(9), Just(10), Just(12), Just(13), Just(14), Just(21), Just(22),
                Just(23), Just(24), Just(36), Just(37), Just(38), Just(39), Just(40)
            ],
            string_strategy(40),
        )
            .prop_map(|(k, m)| DV::L(vec![DV::N(k as u128), DV::S(m)]))
            .boxed(),
        Leaf::DateTimeUtc => prop_oneof![any::<i64>(), -5i64..5, Just(i64::MIN), Just(i64::MAX)].prop_map(|x| DV::N(x as u64 as u128)).boxed(),
    }
}

/// Deterministic value whose primitive leaves carry pairwise distinct byte patterns, so that
/// a reordering of fields, a dropped field or a padding byte shows up in the bytes.
pub fn pattern_dv(u: &Universe, ty: &Ty, ctr: &mut u64, variant_pick: u64) -> DV {
    let mut next = || {
        *ctr += 1;
        *ctr
    };
    match ty {
        Ty::Prim(p) => {
            let k = next();
            match p {
                Prim::Bool => DV::N((k & 1) as u128),
                Prim::Char => DV::N(0x41 + (k % 26) as u128),
                _ => {
                    // bytes k*16+1, k*16+2, ...
                    let mut x: u128 = 0;
                    for b in 0..p.wire_size() {
                        x |= ((((k * 16) as u128 + b as u128 + 1) & 0xff) as u128) << (8 * b);
                    }
                    if *p == Prim::F32 || *p == Prim::F64 {
                        // keep it a finite number: clear the top exponent bit
                        x &= !(1u128 << (p.bits() - 2));
                    }
                    DV::N(x & p.mask())
                }
            }
        }
        Ty::Str => DV::S(format!("s{}", next())),
        Ty::Unit => DV::unit(),
        Ty::Opt(a) => DV::some(pattern_dv(u, a, ctr, variant_pick)),
        Ty::Res(a, b) => {
            if variant_pick % 2 == 0 {
                DV::V(1, vec![pattern_dv(u, a, ctr, variant_pick)])
            } else {
                DV::V(0, vec![pattern_dv(u, b, ctr, variant_pick)])
            }
        }
        Ty::Seq(k, a) => {
            let n = match k {
                SeqKind::ArrayVec(n) => (*n).min(2),
                _ => 2,
            };
            DV::L((0..n).map(|_| pattern_dv(u, a, ctr, variant_pick)).collect())
        }
        Ty::Set(_, a) => DV::L((0..2).map(|_| pattern_dv(u, a, ctr, variant_pick)).collect()),
        Ty::Map(_, k, v) => DV::L(
            (0..2)
                .map(|_| DV::L(vec![pattern_dv(u, k, ctr, variant_pick), pattern_dv(u, v, ctr, variant_pick)]))
                .collect(),
        ),
        Ty::Array(a, n) => DV::L((0..*n).map(|_| pattern_dv(u, a, ctr, variant_pick)).collect()),
        Ty::Tuple(ts) => DV::L(ts.iter().map(|t| pattern_dv(u, t, ctr, variant_pick)).collect()),
        Ty::Wrap(_, a) => pattern_dv(u, a, ctr, variant_pick),
        Ty::Range(a) => DV::L(vec![pattern_dv(u, a, ctr, variant_pick), pattern_dv(u, a, ctr, variant_pick)]),
        Ty::Leaf(l) => match l {
            Leaf::ArcStr | Leaf::PathBuf | Leaf::CowStr => DV::S(format!("l{}", next())),
            Leaf::ArrayString(n) => {
                let s = format!("a{}", next());
                DV::S(s.chars().take(*n).collect())
            }
            Leaf::Duration => DV::L(vec![DV::N(next() as u128), DV::N(7)]),
            Leaf::SystemTime => DV::L(vec![DV::N(0), DV::N(next() as u128), DV::N(9)]),
            Leaf::IpAddr => DV::V(0, vec![DV::N(0x0a000001 + next() as u128)]),
            Leaf::SocketAddr => DV::V(0, vec![DV::N(8000 + (next() % 100) as u128), DV::N(0x7f000001)]),
            Leaf::BitVec | Leaf::BitVec08 => DV::L(vec![DV::N(1), DV::N(0), DV::N(1)]),
            Leaf::BitSet | Leaf::BitSet08 => DV::L(vec![DV::N(1), DV::N(5)]),
            Leaf::Atomic(p) => pattern_dv(u, &Ty::Prim(*p), ctr, variant_pick),
            Leaf::Phantom | Leaf::Canary1 => DV::unit(),
            Leaf::IoError => DV::L(vec![DV::N(1), DV::S("e".into())]),
            Leaf::DateTimeUtc => DV::N(1_000_000_007 + next() as u128),
        },
        Ty::Def(i, args) => {
            let d = &u.defs[*i];
            if d.recursive && *ctr > 400 {
                // cut recursion: default-like minimal value
                return minimal_dv(u, ty);
            }
            match &d.kind {
                DefKind::Struct { fields, .. } => DV::L(
                    fields
                        .iter()
                        .filter(|f| f.is_live())
                        .map(|f| {
                            if d.recursive && matches!(f.ty, Ty::Opt(_) | Ty::Seq(_, _)) {
                                minimal_dv(u, &Universe::subst(&f.ty, args))
                            } else {
                                pattern_dv(u, &Universe::subst(&f.ty, args), ctr, variant_pick)
                            }
                        })
                        .collect(),
                ),
                DefKind::Enum { variants } => {
                    let vi = (variant_pick % variants.len() as u64) as usize;
                    DV::V(
                        vi as u32,
                        variants[vi]
                            .fields
                            .iter()
                            .filter(|f| f.is_live())
                            .map(|f| pattern_dv(u, &Universe::subst(&f.ty, args), ctr, variant_pick))
                            .collect(),
                    )
                }
            }
        }
        Ty::Param(_) => panic!("open type"),
    }
}

/// Smallest value of a type (empty collections, None, first variant, zeros).
pub fn minimal_dv(u: &Universe, ty: &Ty) -> DV {
    match ty {
        Ty::Prim(_) => DV::N(0),
        Ty::Str => DV::S(String::new()),
        Ty::Unit => DV::unit(),
        Ty::Opt(_) => DV::none(),
        Ty::Res(a, _) => DV::V(1, vec![minimal_dv(u, a)]),
        Ty::Seq(_, _) | Ty::Set(_, _) | Ty::Map(_, _, _) => DV::L(vec![]),
        Ty::Array(a, n) => DV::L((0..*n).map(|_| minimal_dv(u, a)).collect()),
        Ty::Tuple(ts) => DV::L(ts.iter().map(|t| minimal_dv(u, t)).collect()),
        Ty::Wrap(_, a) => minimal_dv(u, a),
        Ty::Range(a) => DV::L(vec![minimal_dv(u, a), minimal_dv(u, a)]),
        Ty::Leaf(l) => match l {
            Leaf::ArcStr | Leaf::PathBuf | Leaf::CowStr | Leaf::ArrayString(_) => DV::S(String::new()),
            Leaf::Duration => DV::L(vec![DV::N(0), DV::N(0)]),
            Leaf::SystemTime => DV::L(vec![DV::N(0), DV::N(0), DV::N(0)]),
            Leaf::IpAddr => DV::V(0, vec![DV::N(0)]),
            Leaf::SocketAddr => DV::V(0, vec![DV::N(0), DV::N(0)]),
            Leaf::BitVec | Leaf::BitVec08 | Leaf::BitSet | Leaf::BitSet08 => DV::L(vec![]),
            Leaf::Atomic(_) => DV::N(0),
            Leaf::Phantom | Leaf::Canary1 => DV::unit(),
            Leaf::IoError => DV::L(vec![DV::N(40), DV::S(String::new())]),
            Leaf::DateTimeUtc => DV::N(0),
        },
        Ty::Def(i, args) => {
            let d = &u.defs[*i];
            match &d.kind {
                DefKind::Struct { fields, .. } => DV::L(
                    fields.iter().filter(|f| f.is_live()).map(|f| minimal_dv(u, &Universe::subst(&f.ty, args))).collect(),
                ),
                DefKind::Enum { variants } => DV::V(
                    0,
                    variants[0].fields.iter().filter(|f| f.is_live()).map(|f| minimal_dv(u, &Universe::subst(&f.ty, args))).collect(),
                ),
            }
        }
        Ty::Param(_) => panic!("open type"),
    }
}
