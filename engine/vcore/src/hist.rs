//! Generator of evolution histories: chains of "programs" (universes) obtained from a base by
//! the documented edit steps only (crate docs "Rules for managing versions"):
//!   add field `N..` with a default (Default / savefile_default_val / savefile_default_fn),
//!   remove field -> Removed<T> / AbiRemoved<T[,Ctor]> with a closed range,
//!   retire a field that stays in memory (closed range, as in the repository's `Version3`),
//!   change a field's type with savefile_versions_as (From conversion or named function),
//!   append an enum variant `N..`.
//! All definitions of a family evolve under one global version number.

use crate::dv::DV;
use crate::gen::Gen;
use crate::ir::*;
use crate::strat::pattern_dv;
use serde::{Deserialize, Serialize};
use std::collections::BTreeMap;

#[derive(Clone, Debug, PartialEq, Eq, Serialize, Deserialize)]
pub struct Family {
    pub name: String,
    /// unis[p] = the program at global version p
    pub unis: Vec<Universe>,
    /// index of the root definition (same in every version)
    pub root: usize,
    /// edits[p-1] = labels of the edits made for version p
    pub edits: Vec<Vec<String>>,
}

#[derive(Clone, Debug, PartialEq, Eq, Serialize, Deserialize)]
pub struct HistBatch {
    pub seed: u64,
    pub families: Vec<Family>,
    pub stats: BTreeMap<String, usize>,
}

fn prim_field(g: &mut Gen, name: String, prims: &[Prim]) -> Field {
    Field::plain(&name, Ty::Prim(*g.rng.pick(prims)))
}

struct FieldNamer(usize);
impl FieldNamer {
    fn next(&mut self) -> String {
        self.0 += 1;
        format!("f{}", self.0)
    }
}

fn gen_family(seed: u64, fi: usize, stats: &mut BTreeMap<String, usize>) -> Family {
    let name = format!("fam{}", fi);
    let mut g = Gen::new(seed, &format!("{}::v0", name), 0, "");
    g.core_only = true;
    g.uni.defs_have_no_caps = true;
    let mut namer = FieldNamer(0);
    let small = [Prim::U8, Prim::U16, Prim::U32, Prim::I32, Prim::U64, Prim::I64, Prim::Bool, Prim::Char, Prim::F32];
    // ---- base program (version 0)
    // def 0: inner struct or enum
    let inner_is_enum = g.rng.chance(1, 3);
    if inner_is_enum {
        let nv = g.rng.range(2, 3);
        let mut variants = vec![];
        for i in 0..nv {
            let shape = *g.rng.pick(&[Shape::Unit, Shape::Tuple, Shape::Named]);
            let mut fields = vec![];
            if shape != Shape::Unit {
                for k in 0..g.rng.range(1, 2) {
                    let fname = if shape == Shape::Tuple { format!("{}", k) } else { namer.next() };
                    let ty = if g.rng.chance(1, 2) { Ty::Prim(*g.rng.pick(&small)) } else { g.gen_ty(1, Caps::default()) };
                    fields.push(Field::plain(&fname, ty));
                }
            }
            variants.push(VariantDef { name: format!("V{}", i), shape, fields, discr: None, vfrom: 0, vto: None });
        }
        let repr = *g.rng.pick(&[Repr::Rust, Repr::Rust, Repr::Int(Prim::U8), Repr::Int(Prim::U16)]);
        g.push(Def { name: "Inner".into(), repr, kind: DefKind::Enum { variants }, params: 0, recursive: false });
    } else {
        let mut fields = vec![];
        for _ in 0..g.rng.range(1, 4) {
            let ty = if g.rng.chance(2, 3) { Ty::Prim(*g.rng.pick(&small)) } else { g.gen_ty(1, Caps::default()) };
            fields.push(Field::plain(&namer.next(), ty));
        }
        let repr = *g.rng.pick(&[Repr::Rust, Repr::C]);
        g.push(Def { name: "Inner".into(), repr, kind: DefKind::Struct { shape: Shape::Named, fields }, params: 0, recursive: false });
    }
    // def 1: packed candidate (all same-size primitives, repr(C))
    {
        let p = *g.rng.pick(&[Prim::U32, Prim::U32, Prim::I32, Prim::U16, Prim::U8, Prim::U64, Prim::F32]);
        let mut fields = vec![];
        for _ in 0..g.rng.range(2, 4) {
            fields.push(Field::plain(&namer.next(), Ty::Prim(p)));
        }
        g.push(Def { name: "Pk".into(), repr: Repr::C, kind: DefKind::Struct { shape: Shape::Named, fields }, params: 0, recursive: false });
    }
    // def 2: root struct
    {
        let mut fields = vec![];
        let n = g.rng.range(3, 7);
        for _ in 0..n {
            let ty = match g.rng.below(10) {
                0 | 1 => Ty::Def(0, vec![]),
                2 => Ty::Seq(SeqKind::Vec, Box::new(Ty::Def(0, vec![]))),
                3 => Ty::Opt(Box::new(Ty::Def(0, vec![]))),
                4 => Ty::Def(1, vec![]),
                5 => Ty::Seq(SeqKind::Vec, Box::new(Ty::Def(1, vec![]))),
                6 | 7 => Ty::Prim(*g.rng.pick(&small)),
                8 => Ty::Str,
                _ => g.gen_ty(2, Caps::default()),
            };
            fields.push(Field::plain(&namer.next(), ty));
        }
        let shape = Shape::Named;
        let repr = *g.rng.pick(&[Repr::Rust, Repr::Rust, Repr::C]);
        g.push(Def { name: "Root".into(), repr, kind: DefKind::Struct { shape, fields }, params: 0, recursive: false });
    }
    let root = 2;
    let mut unis = vec![g.uni.clone()];
    let mut edits_all = vec![];
    // every sixth family follows a script for the packed candidate: a field is added in version 1
    // and removed again (AbiRemoved) in a later version, so that some written versions lie inside,
    // below and above the closed range of a field that is no longer in memory
    let scripted = fi % 6 == 1;
    // every sixth family (offset 2): a primitive field is added to the root in version 1 (default from
    // the Default trait) and changes its type with a conversion in version 2, so data of version 0
    // (before the field existed), 1 (old type) and 2 (new type) all have to load later
    let scripted_conv = fi % 6 == 2;
    let nver = if scripted { g.rng.range(3, 4) } else if scripted_conv { g.rng.range(2, 4) } else { g.rng.range(1, 4) }; // 2..5 program versions
    let script_remove_at = if scripted { g.rng.range(2, nver) as u32 } else { 0 };
    let mut fn_ctr = 0usize;
    for v in 1..=nver as u32 {
        let mut u = unis.last().unwrap().clone();
        u.version = v;
        u.module = format!("{}::v{}", name, v);
        g.uni = u;
        let mut labels = vec![];
        let nedits = g.rng.range(1, 3);
        for e in 0..nedits {
            // (the packed candidate gets a larger share: its version ranges decide raw copy vs field-wise)
            let mut di = if g.rng.chance(1, 4) { 1 } else { g.rng.below(g.uni.defs.len()) };
            let script_step = if scripted && e == 0 && v == 1 {
                1
            } else if scripted && e == 0 && v == script_remove_at {
                2
            } else {
                0
            };
            let script_step = if scripted_conv && e == 0 && v == 1 {
                3
            } else if scripted_conv && e == 0 && v == 2 {
                4
            } else {
                script_step
            };
            if script_step == 1 || script_step == 2 {
                di = 1;
            }
            if script_step == 3 || script_step == 4 {
                di = 2;
            }
            g.def_limit = di; // new field types may only refer to earlier definitions
            let is_enum = g.uni.defs[di].is_enum();
            let packed_def = di == 1;
            let mut roll = g.rng.below(if is_enum { 3 } else { 12 });
            match script_step {
                1 | 3 => roll = 0,
                2 => roll = 5,
                4 => roll = 10,
                _ => {}
            }
            if is_enum {
                // append a variant
                let d = &mut g.uni.defs[di];
                if let DefKind::Enum { variants } = &mut d.kind {
                    let i = variants.len();
                    let shape = *Gen::pick_shape(roll);
                    let mut fields = vec![];
                    if shape != Shape::Unit {
                        let fname = if shape == Shape::Tuple { "0".to_string() } else { namer.next() };
                        fields.push(Field::plain(&fname, Ty::Prim(Prim::U16)));
                    }
                    variants.push(VariantDef { name: format!("V{}", i), shape, fields, discr: None, vfrom: v, vto: None });
                    labels.push("enum_variant_appended".to_string());
                }
                continue;
            }
            // struct edits
            let nfields = match &g.uni.defs[di].kind {
                DefKind::Struct { fields, .. } => fields.len(),
                _ => 0,
            };
            match roll {
                0..=4 => {
                    // add a field at a random position
                    let pos = g.rng.range(0, nfields);
                    let mut f = Field::plain(&namer.next(), Ty::Unit);
                    f.vfrom = v;
                    let kind = if script_step == 3 { 3 } else { g.rng.below(4) };
                    if script_step == 3 {
                        f.ty = Ty::Prim(*g.rng.pick(&[Prim::U8, Prim::U16, Prim::U32, Prim::I16]));
                    } else if packed_def {
                        // keep the packed candidate homogeneous
                        let p = match &g.uni.defs[di].kind {
                            DefKind::Struct { fields, .. } => fields.iter().find_map(|f| if let Ty::Prim(p) = f.ty { Some(p) } else { None }).unwrap_or(Prim::U32),
                            _ => Prim::U32,
                        };
                        f.ty = Ty::Prim(p);
                    } else if kind == 1 {
                        f = prim_field(&mut g, f.name.clone(), &[Prim::U8, Prim::I16, Prim::U32, Prim::I64, Prim::U64]);
                        f.vfrom = v;
                    } else {
                        f.ty = g.gen_ty(2, Caps { default: kind != 2, key: false, copy: false });
                        if kind == 2 {
                            // the value returned by a default function is written into the source of
                            // every later version: keep it independent of definitions that may still
                            // gain fields (a stale value would make the *harness* panic)
                            let mut tries = 0;
                            while g.uni.any_ty(&f.ty, &|t| matches!(t, Ty::Def(..))) {
                                tries += 1;
                                f.ty = if tries > 5 { Ty::Prim(Prim::U32) } else { g.gen_ty(2, Caps { default: false, key: false, copy: false }) };
                            }
                        }
                    }
                    match kind {
                        1 if matches!(f.ty, Ty::Prim(p) if p.is_int()) => {
                            let k = g.rng.range(1, 120) as u128;
                            f.default = DefaultKind::Val(format!("{}", k));
                            f.default_dv = Some(DV::N(k));
                            labels.push("field_added_default_val".into());
                        }
                        2 => {
                            fn_ctr += 1;
                            let fname = format!("dfn{}_{}", fn_ctr, f.name);
                            let mut ctr = (v as u64) * 31 + fn_ctr as u64;
                            let dv = pattern_dv(&g.uni, &f.ty, &mut ctr, fn_ctr as u64);
                            f.default = DefaultKind::Fn(fname);
                            f.default_dv = Some(dv);
                            labels.push("field_added_default_fn".into());
                        }
                        _ => labels.push("field_added_default_trait".into()),
                    }
                    if let DefKind::Struct { fields, .. } = &mut g.uni.defs[di].kind {
                        fields.insert(pos, f);
                    }
                }
                5..=7 => {
                    // remove a live, open-ended field (keep at least one live field)
                    let cands: Vec<usize> = match &g.uni.defs[di].kind {
                        DefKind::Struct { fields, .. } => {
                            // (a field carrying savefile_versions_as cannot become Removed<T>: the derive
                            // converts the old wire value into the field's own type)
                            (0..fields.len())
                                .filter(|i| fields[*i].is_live() && fields[*i].vto.is_none() && fields[*i].vfrom < v && fields[*i].versions_as.is_empty())
                                .collect()
                        }
                        _ => vec![],
                    };
                    let live_count = match &g.uni.defs[di].kind {
                        DefKind::Struct { fields, .. } => fields.iter().filter(|f| f.is_live()).count(),
                        _ => 0,
                    };
                    if cands.is_empty() || live_count <= 1 {
                        continue;
                    }
                    // prefer a field that was itself added in a later version (added, then removed)
                    let added_later: Vec<usize> = match &g.uni.defs[di].kind {
                        DefKind::Struct { fields, .. } => cands.iter().copied().filter(|i| fields[*i].vfrom > 0).collect(),
                        _ => vec![],
                    };
                    let fi2 = if !added_later.is_empty() && (script_step == 2 || g.rng.chance(1, 2)) { *g.rng.pick(&added_later) } else { *g.rng.pick(&cands) };
                    let fty = match &g.uni.defs[di].kind {
                        DefKind::Struct { fields, .. } => fields[fi2].ty.clone(),
                        _ => unreachable!(),
                    };
                    let has_default = g.uni.caps(&fty).default;
                    let how = if script_step == 2 { g.rng.range(1, 2) } else { g.rng.below(4) };
                    let mut ctor = None;
                    let kind = if !has_default {
                        RemovedKind::Removed
                    } else {
                        match how {
                            0 => RemovedKind::Removed,
                            1 => {
                                fn_ctr += 1;
                                let mut ctr = (v as u64) * 17 + fn_ctr as u64;
                                let dv = pattern_dv(&g.uni, &fty, &mut ctr, fn_ctr as u64);
                                ctor = Some((format!("Ctor{}", fn_ctr), dv));
                                RemovedKind::AbiRemoved
                            }
                            _ => RemovedKind::AbiRemoved,
                        }
                    };
                    if let DefKind::Struct { fields, .. } = &mut g.uni.defs[di].kind {
                        let f = &mut fields[fi2];
                        f.vto = Some(v - 1);
                        f.removed = kind;
                        f.abi_ctor = ctor.clone();
                        f.default = DefaultKind::Trait;
                        f.default_dv = None;
                    }
                    if let DefKind::Struct { fields, .. } = &g.uni.defs[di].kind {
                        if fields[fi2].vfrom > 0 {
                            labels.push(if packed_def { "packed_field_added_then_removed".into() } else { "field_added_then_removed".into() });
                        }
                    }
                    labels.push(
                        match (kind, ctor.is_some()) {
                            (RemovedKind::Removed, _) => "field_removed_Removed",
                            (_, true) => "field_removed_AbiRemoved_custom_ctor",
                            _ => "field_removed_AbiRemoved",
                        }
                        .into(),
                    );
                }
                8 => {
                    // retire a field but keep it in memory (closed range, still live); needs from >= 1
                    // so that the derive considers a default value necessary
                    let cands: Vec<usize> = match &g.uni.defs[di].kind {
                        DefKind::Struct { fields, .. } => (0..fields.len())
                            .filter(|i| {
                                let f = &fields[*i];
                                f.is_live() && f.vto.is_none() && f.vfrom < v && f.versions_as.is_empty() && g.uni.caps(&f.ty).default
                            })
                            .collect(),
                        _ => vec![],
                    };
                    if cands.is_empty() {
                        continue;
                    }
                    // prefer a field that was itself added in a later version (added, then removed)
                    let added_later: Vec<usize> = match &g.uni.defs[di].kind {
                        DefKind::Struct { fields, .. } => cands.iter().copied().filter(|i| fields[*i].vfrom > 0).collect(),
                        _ => vec![],
                    };
                    let fi2 = if !added_later.is_empty() && g.rng.chance(1, 2) { *g.rng.pick(&added_later) } else { *g.rng.pick(&cands) };
                    if let DefKind::Struct { fields, .. } = &mut g.uni.defs[di].kind {
                        fields[fi2].vto = Some(v - 1);
                    }
                    labels.push("field_retired_but_live".into());
                }
                _ => {
                    // change the type of a primitive field with savefile_versions_as
                    let cands: Vec<usize> = match &g.uni.defs[di].kind {
                        DefKind::Struct { fields, .. } => (0..fields.len())
                            .filter(|i| {
                                let f = &fields[*i];
                                f.is_live() && f.vto.is_none() && f.vfrom < v && f.versions_as.is_empty() && !packed_def
                                    && matches!(f.ty, Ty::Prim(Prim::U8) | Ty::Prim(Prim::U16) | Ty::Prim(Prim::U32) | Ty::Prim(Prim::I8) | Ty::Prim(Prim::I16) | Ty::Prim(Prim::I32) | Ty::Prim(Prim::F32) | Ty::Prim(Prim::Char))
                            })
                            .collect(),
                        _ => vec![],
                    };
                    if cands.is_empty() {
                        continue;
                    }
                    // prefer a field that was itself added in a later version (added, then removed)
                    let added_later: Vec<usize> = match &g.uni.defs[di].kind {
                        DefKind::Struct { fields, .. } => cands.iter().copied().filter(|i| fields[*i].vfrom > 0).collect(),
                        _ => vec![],
                    };
                    let fi2 = if !added_later.is_empty() && (script_step == 4 || g.rng.chance(1, 2)) { *g.rng.pick(&added_later) } else { *g.rng.pick(&cands) };
                    fn_ctr += 1;
                    let how = g.rng.below(4);
                    if let DefKind::Struct { fields, .. } = &mut g.uni.defs[di].kind {
                        let f = &mut fields[fi2];
                        let old = f.ty.clone();
                        let po = if let Ty::Prim(p) = old { p } else { unreachable!() };
                        let widen = |p: Prim| match p {
                            Prim::U8 => Prim::U16,
                            Prim::U16 => Prim::U32,
                            Prim::U32 => Prim::U64,
                            Prim::I8 => Prim::I16,
                            Prim::I16 => Prim::I32,
                            Prim::I32 => Prim::I64,
                            Prim::F32 => Prim::F64,
                            o => o,
                        };
                        let (newty, conv, label) = match (how, po) {
                            (_, Prim::Char) => (Ty::Str, Conv::From, "type_change_from_char_to_string"),
                            (_, Prim::F32) => (Ty::Prim(Prim::F64), Conv::From, "type_change_from_widen"),
                            (0, _) => (Ty::Prim(widen(po)), Conv::From, "type_change_from_widen"),
                            (1, _) => (Ty::Str, Conv::FnToString(format!("conv{}", fn_ctr)), "type_change_fn_to_string"),
                            (2, _) => (Ty::Opt(Box::new(old.clone())), Conv::From, "type_change_from_into_option"),
                            _ => (Ty::Prim(widen(po)), Conv::FnCastAdd(format!("conv{}", fn_ctr), (fn_ctr as u64) * 3 + 1), "type_change_fn_cast_add"),
                        };
                        let from = f.vfrom;
                        f.versions_as.push(VersionsAs { from, to: v - 1, ty: old, conv });
                        f.ty = newty;
                        f.vfrom = v;
                        // versions below the original `from` still take the declared default
                        if from > 0 && !matches!(f.default, DefaultKind::Trait) {
                            f.default = DefaultKind::Trait;
                            f.default_dv = None;
                        }
                        labels.push(label.into());
                    }
                }
            }
        }
        for l in &labels {
            *stats.entry(format!("edit.{}", l)).or_insert(0) += 1;
        }
        edits_all.push(labels);
        unis.push(g.uni.clone());
    }
    *stats.entry(format!("family.versions_{}", unis.len())).or_insert(0) += 1;
    Family { name, unis, root, edits: edits_all }
}

impl Gen {
    fn pick_shape(roll: usize) -> &'static Shape {
        match roll {
            0 => &Shape::Unit,
            1 => &Shape::Tuple,
            _ => &Shape::Named,
        }
    }
}

pub fn gen_hist_batch(seed: u64, nfam: usize) -> HistBatch {
    let mut stats = BTreeMap::new();
    let mut families = vec![];
    // half of the families come from a fixed seed (regression set), half from the run seed
    for fi in 0..nfam {
        let s = if fi < nfam / 2 { 0xF00D_0000 + fi as u64 } else { seed.wrapping_mul(0x9E3779B97F4A7C15) ^ (fi as u64) << 8 };
        families.push(gen_family(s, fi, &mut stats));
    }
    HistBatch { seed, families, stats }
}

/// Emit `pub mod famK { pub mod vP { defs } }` + registry of root ops.
pub fn emit_hist(b: &HistBatch, json_file: &str) -> String {
    use std::fmt::Write;
    let mut out = String::from("// GENERATED by typegen — do not edit\n#![allow(warnings)]\n");
    for fam in &b.families {
        writeln!(out, "pub mod {} {{", fam.name).unwrap();
        for (p, u) in fam.unis.iter().enumerate() {
            writeln!(out, "pub mod v{} {{", p).unwrap();
            out.push_str(crate::emit::MODULE_PRELUDE);
            for i in 0..u.defs.len() {
                crate::emit::emit_def(u, i, &mut out);
            }
            out.push_str("}\n");
        }
        out.push_str("}\n");
    }
    writeln!(out, "pub const IR_JSON: &str = include_str!(\"{}\");", json_file).unwrap();
    out.push_str("/// [family][version] -> ops of the root definition\npub fn roots() -> Vec<Vec<Box<dyn hcore::ops::TypeOps>>> {\n    vec![\n");
    for fam in &b.families {
        out.push_str("        vec![");
        for (p, u) in fam.unis.iter().enumerate() {
            write!(out, "hcore::ops::mk::<{}::v{}::{}>(), ", fam.name, p, u.defs[fam.root].name).unwrap();
        }
        out.push_str("],\n");
    }
    out.push_str("    ]\n}\n");
    out
}
