//! typegen: seeded generator of type definitions (by construction, no rejection).
//! Only emits definitions `#[derive(Savefile)]` is documented to accept; a compile error of
//! generated code is a generator bug (reported as inconclusive), never a violation.

use crate::dv::DV;
use crate::ir::*;
use crate::rng::Rng;
use serde::{Deserialize, Serialize};
use std::collections::BTreeMap;

/// A root type registered in the generated crate (gets a TypeOps entry).
#[derive(Clone, Debug, PartialEq, Eq, Serialize, Deserialize)]
pub struct Root {
    pub ty: Ty,
    /// why it is in the batch (class label used for distribution statistics)
    pub class: String,
}

#[derive(Clone, Debug, PartialEq, Eq, Serialize, Deserialize)]
pub struct DataBatch {
    pub seed: u64,
    pub uni: Universe,
    pub roots: Vec<Root>,
    pub stats: BTreeMap<String, usize>,
}

pub struct Gen {
    /// Cell<T> has no Introspect impl, so it cannot be a field of a derived def
    pub allow_cell: bool,
    /// only types whose encoding the documentation describes (no private leaf encodings,
    /// no unordered containers) — used for evolution histories
    pub core_only: bool,
    /// generated types may only refer to definitions with an index below this limit
    pub def_limit: usize,
    pub rng: Rng,
    pub uni: Universe,
    pub stats: BTreeMap<String, usize>,
    prefix: String,
}

const INT_REPRS: [Prim; 6] = [Prim::U8, Prim::I8, Prim::U16, Prim::I16, Prim::U32, Prim::I32];
const PACKABLE: [Prim; 12] = [
    Prim::U8,
    Prim::I8,
    Prim::U16,
    Prim::I16,
    Prim::U32,
    Prim::I32,
    Prim::U64,
    Prim::I64,
    Prim::F32,
    Prim::F64,
    Prim::Bool,
    Prim::Char,
];

impl Gen {
    pub fn new(seed: u64, module: &str, version: u32, name_prefix: &str) -> Gen {
        Gen {
            allow_cell: false,
            core_only: false,
            def_limit: usize::MAX,
            rng: Rng::new(seed),
            uni: Universe { version, defs: vec![], module: module.to_string(), defs_have_no_caps: false },
            stats: BTreeMap::new(),
            prefix: name_prefix.to_string(),
        }
    }
    pub fn stat(&mut self, k: &str) {
        *self.stats.entry(k.to_string()).or_insert(0) += 1;
    }

    fn ok(have: Caps, need: Caps) -> bool {
        (!need.key || have.key) && (!need.copy || have.copy) && (!need.default || have.default)
    }

    fn gen_prim(&mut self, need: Caps) -> Prim {
        loop {
            let p = *self.rng.pick(&ALL_PRIMS);
            if need.key && p.is_float() {
                continue;
            }
            return p;
        }
    }

    /// Generate a closed type with the required capabilities.
    pub fn gen_ty(&mut self, depth: usize, need: Caps) -> Ty {
        let leafy = depth == 0;
        // (weight, tag)
        let mut c: Vec<(usize, u8)> = vec![(30, 0)];
        if !need.copy {
            c.push((8, 1)); // String
        }
        c.push((1, 2)); // unit
        if !leafy {
            c.push((6, 3)); // Option
            if !need.default {
                c.push((3, 4)); // Result
            }
            if !need.copy {
                c.push((10, 5)); // Seq
                c.push((5, 6)); // Set
                c.push((5, 7)); // Map
                c.push((6, 10)); // Wrap
            }
            c.push((6, 8)); // Array
            c.push((6, 9)); // Tuple
            if !need.key && !need.copy && !need.default {
                c.push((1, 11)); // Range
            }
        }
        c.push((7, 12)); // Leaf
        if self.uni.defs.len().min(self.def_limit) > 0 {
            c.push((18, 13)); // Def
        }
        for _attempt in 0..50 {
            let w: Vec<usize> = c.iter().map(|x| x.0).collect();
            let tag = c[self.rng.weighted(&w)].1;
            let no_default = Caps { default: false, ..need };
            let t = match tag {
                0 => Ty::Prim(self.gen_prim(need)),
                1 => Ty::Str,
                2 => Ty::Unit,
                3 => Ty::Opt(Box::new(self.gen_ty(depth - 1, no_default))),
                4 => Ty::Res(Box::new(self.gen_ty(depth - 1, no_default)), Box::new(self.gen_ty(depth - 1, no_default))),
                5 => {
                    let kinds = [
                        (10, SeqKind::Vec),
                        (2, SeqKind::VecDeque),
                        (2, SeqKind::BinaryHeap),
                        (2, SeqKind::BoxSlice),
                        (1, SeqKind::ArcSlice),
                        (1, SeqKind::SmallVec(*self.rng.pick(&[1usize, 2, 4]))),
                        (1, SeqKind::ArrayVec(*self.rng.pick(&[0usize, 1, 3, 8]))),
                    ];
                    let w: Vec<usize> = kinds.iter().map(|x| x.0).collect();
                    let mut k = kinds[self.rng.weighted(&w)].1;
                    if self.core_only && k == SeqKind::BinaryHeap {
                        k = SeqKind::Vec;
                    }
                    let mut en = Caps { default: false, copy: false, key: need.key };
                    if k == SeqKind::BinaryHeap {
                        en.key = true;
                    }
                    Ty::Seq(k, Box::new(self.gen_ty(depth - 1, en)))
                }
                6 => {
                    let mut k = *self.rng.pick(&[SetKind::Hash, SetKind::BTree, SetKind::BTree, SetKind::Index]);
                    if self.core_only && k == SetKind::Hash {
                        k = SetKind::BTree;
                    }
                    Ty::Set(k, Box::new(self.gen_ty(depth - 1, Caps { key: true, copy: false, default: false })))
                }
                7 => {
                    let mut k = *self.rng.pick(&[MapKind::Hash, MapKind::BTree, MapKind::BTree, MapKind::Index]);
                    if self.core_only && k == MapKind::Hash {
                        k = MapKind::BTree;
                    }
                    let kk = self.gen_ty(depth - 1, Caps { key: true, copy: false, default: false });
                    let vv = self.gen_ty(depth - 1, Caps { key: need.key, copy: false, default: false });
                    Ty::Map(k, Box::new(kk), Box::new(vv))
                }
                8 => {
                    let n = *self.rng.pick(&[0usize, 1, 2, 3, 4, 5, 8, 33]);
                    Ty::Array(Box::new(self.gen_ty(depth - 1, need)), n)
                }
                9 => {
                    let n = self.rng.range(1, 3);
                    Ty::Tuple((0..n).map(|_| self.gen_ty(depth - 1, need)).collect())
                }
                10 => {
                    let k = *self.rng.pick(&[
                        WrapKind::Box,
                        WrapKind::Box,
                        WrapKind::Rc,
                        WrapKind::Arc,
                        WrapKind::Cell,
                        WrapKind::RefCell,
                        WrapKind::StdMutex,
                        WrapKind::PlMutex,
                        WrapKind::PlRwLock,
                    ]);
                    let k = if k == WrapKind::Cell && !self.allow_cell { WrapKind::RefCell } else { k };
                    let mut en = Caps { copy: false, ..need };
                    if k == WrapKind::Cell {
                        en.copy = true;
                    }
                    Ty::Wrap(k, Box::new(self.gen_ty(depth - 1, en)))
                }
                11 => Ty::Range(Box::new(self.gen_ty(depth - 1, Caps::default()))),
                12 => {
                    let atom = *self.rng.pick(&[
                        Prim::Bool,
                        Prim::U8,
                        Prim::I8,
                        Prim::U16,
                        Prim::I16,
                        Prim::U32,
                        Prim::I32,
                        Prim::U64,
                        Prim::I64,
                        Prim::Usize,
                        Prim::Isize,
                    ]);
                    let leaves = [
                        Leaf::ArcStr,
                        Leaf::ArcStr,
                        Leaf::ArrayString(*self.rng.pick(&[4usize, 16, 40])),
                        Leaf::PathBuf,
                        Leaf::CowStr,
                        Leaf::Duration,
                        Leaf::SystemTime,
                        Leaf::IpAddr,
                        Leaf::SocketAddr,
                        Leaf::BitVec,
                        Leaf::BitSet,
                        Leaf::BitVec08,
                        Leaf::BitSet08,
                        Leaf::Atomic(atom),
                        Leaf::Phantom,
                        Leaf::Canary1,
                        Leaf::IoError,
                        Leaf::DateTimeUtc,
                    ];
                    let mut l = *self.rng.pick(&leaves);
                    if self.core_only {
                        l = *self.rng.pick(&[Leaf::ArcStr, Leaf::ArrayString(16), Leaf::Atomic(atom), Leaf::Phantom]);
                    }
                    if l == Leaf::IoError && !self.allow_cell {
                        l = Leaf::Duration; // io::Error has no Introspect impl either
                    }
                    Ty::Leaf(l)
                }
                13 => {
                    let i = self.rng.below(self.uni.defs.len().min(self.def_limit));
                    let d = &self.uni.defs[i];
                    let np = d.params;
                    // generic arguments: small closed types meeting the need (conservatively)
                    let args: Vec<Ty> = (0..np).map(|_| self.gen_ty(0, Caps { key: need.key, copy: need.copy, default: need.default })).collect();
                    Ty::Def(i, args)
                }
                _ => unreachable!(),
            };
            if Self::ok(self.uni.caps(&t), need) {
                return t;
            }
        }
        Ty::Prim(Prim::U8)
    }

    pub fn name(&mut self, kind: &str) -> String {
        format!("{}{}{}", self.prefix, kind, self.uni.defs.len())
    }

    pub fn push(&mut self, d: Def) -> usize {
        self.uni.defs.push(d);
        self.uni.defs.len() - 1
    }

    /// primitive-only struct biased towards (almost) padding-free layouts
    pub fn gen_packed_struct(&mut self) -> usize {
        let al = *self.rng.pick(&[2u32, 4, 8, 16]);
        let repr = *self.rng.pick(&[Repr::C, Repr::C, Repr::C, Repr::C, Repr::Rust, Repr::Rust, Repr::CAlign(al), Repr::Align(al)]);
        let shape = *self.rng.pick(&[Shape::Named, Shape::Named, Shape::Tuple]);
        let mut n = self.rng.range(1, 7);
        if matches!(repr, Repr::CAlign(_) | Repr::Align(_)) && self.rng.chance(1, 2) {
            // over-aligned wrapper of a single field: only trailing padding
            n = 1;
            self.stat("packed_struct.over_aligned_single_field");
        }
        let mut fields = vec![];
        // the compiler is free to reorder repr(Rust) fields (it does so within a group of equal
        // alignment when some of them have niches): same-size mixes with bool / char more often there
        let mut mode = self.rng.below(6);
        if matches!(repr, Repr::Rust | Repr::Align(_)) && self.rng.chance(1, 2) {
            mode = *self.rng.pick(&[3, 5]);
            self.stat("packed_struct.same_size_niche_mix_reorderable");
        }
        let base = *self.rng.pick(&PACKABLE);
        for i in 0..n {
            let p = match mode {
                0 => base,                                  // homogeneous -> packed
                1 => *self.rng.pick(&PACKABLE),             // random -> likely padding
                2 => {
                    // descending sizes -> no interior padding, maybe trailing
                    let order = [Prim::U64, Prim::F64, Prim::U32, Prim::Char, Prim::I16, Prim::U16, Prim::U8, Prim::Bool];
                    order[(i * order.len() / n).min(order.len() - 1)]
                }
                3 => *self.rng.pick(&[Prim::U8, Prim::I8, Prim::Bool]), // all size 1
                5 => *self.rng.pick(&[Prim::U32, Prim::I32, Prim::F32, Prim::Char, Prim::Char]), // all size 4
                _ => {
                    if i == 0 { Prim::U32 } else { *self.rng.pick(&[Prim::U32, Prim::I32, Prim::F32, Prim::Char, Prim::U16]) }
                }
            };
            let ty = match self.rng.below(12) {
                0 => Ty::Array(Box::new(Ty::Prim(p)), self.rng.range(0, 3)),
                1 => Ty::Tuple(vec![Ty::Prim(p), Ty::Prim(p)]),
                2 if !self.uni.defs.is_empty() => {
                    // nested packed candidate
                    let cands: Vec<usize> = (0..self.uni.defs.len())
                        .filter(|j| self.uni.defs[*j].params == 0 && self.is_prim_only(*j))
                        .collect();
                    if cands.is_empty() { Ty::Prim(p) } else { Ty::Def(*self.rng.pick(&cands), vec![]) }
                }
                _ => Ty::Prim(p),
            };
            let fname = if shape == Shape::Tuple { format!("{}", i) } else { format!("f{}", i) };
            fields.push(Field::plain(&fname, ty));
        }
        // occasionally: version attributes on a packed candidate (closed-range live field, added field)
        // (only on fields whose type implements Default: nested defs may be enums, which do not)
        let defaultable: Vec<usize> = (0..fields.len()).filter(|i| !matches!(fields[*i].ty, Ty::Def(..))).collect();
        if self.uni.version >= 1 && !defaultable.is_empty() && self.rng.chance(1, 4) {
            // one field, or several (any declaration order of their version ranges)
            let picks: Vec<usize> = if self.rng.chance(1, 2) {
                vec![*self.rng.pick(&defaultable)]
            } else {
                let mut p: Vec<usize> = defaultable.iter().copied().filter(|_| self.rng.chance(1, 2)).collect();
                if p.is_empty() {
                    p.push(*self.rng.pick(&defaultable));
                }
                self.stat("packed_struct.several_versioned_fields");
                p
            };
            let v = self.uni.version;
            for i in picks {
                match self.rng.below(3) {
                    0 => {
                        let from = self.rng.range(0, (v - 1) as usize) as u32;
                        let to = self.rng.range(from as usize, (v - 1) as usize) as u32;
                        fields[i].vfrom = from;
                        fields[i].vto = Some(to);
                        self.stat("packed_struct.closed_range_live_field");
                    }
                    1 => {
                        fields[i].vfrom = self.rng.range(1, v as usize) as u32;
                        self.stat("packed_struct.added_field");
                    }
                    _ => {
                        let to = self.rng.range(0, (v - 1) as usize) as u32;
                        fields[i].vfrom = self.rng.range(0, to as usize) as u32;
                        fields[i].vto = Some(to);
                        fields[i].removed = RemovedKind::AbiRemoved;
                        self.stat("packed_struct.abi_removed_field");
                    }
                }
            }
        }
        // sometimes: an ignored field (kept in memory, never on the wire) in the middle of the run
        if shape == Shape::Named && fields.len() >= 3 && self.rng.chance(1, 7) {
            let cands: Vec<usize> = (0..fields.len()).filter(|i| !fields[*i].has_version_attr() && !matches!(fields[*i].ty, Ty::Def(..))).collect();
            if !cands.is_empty() {
                let i = *self.rng.pick(&cands);
                fields[i].ignore = true;
                self.stat("packed_struct.ignored_field_inside_run");
            }
        }
        self.stat(&format!("packed_struct.repr_{:?}", repr));
        let name = self.name("P");
        self.push(Def { name, repr, kind: DefKind::Struct { shape, fields }, params: 0, recursive: false })
    }

    fn is_prim_only(&self, j: usize) -> bool {
        let d = &self.uni.defs[j];
        d.fields_all().iter().all(|f| {
            f.is_live()
                && !f.has_version_attr()
                && match &f.ty {
                    Ty::Prim(p) => PACKABLE.contains(p),
                    Ty::Array(a, _) => matches!(&**a, Ty::Prim(p) if PACKABLE.contains(p)),
                    _ => false,
                }
        })
    }

    /// fieldless enum, all reprs, optional explicit discriminants
    pub fn gen_unit_enum(&mut self) -> usize {
        let repr = match self.rng.below(8) {
            0 => Repr::Rust,
            1 => Repr::C,
            _ => Repr::Int(*self.rng.pick(&INT_REPRS)),
        };
        let small_repr = matches!(repr, Repr::Int(Prim::U8) | Repr::Int(Prim::I8));
        let n = match self.rng.below(20) {
            0 => 1,
            1 if !small_repr => *self.rng.pick(&[255usize, 256, 257]), // around the 1-byte / 2-byte discriminant boundary when there is no int repr
            _ => self.rng.range(2, 9),
        };
        let explicit = n < 100 && self.rng.chance(2, 5);
        let signed = matches!(repr, Repr::Int(p) if p.is_signed());
        let start: i64 = if explicit { if signed { -(self.rng.below(20) as i64) } else { self.rng.below(20) as i64 } } else { 0 };
        let step: i64 = if explicit { self.rng.range(1, 7) as i64 } else { 1 };
        let mut variants = vec![];
        for i in 0..n {
            let d = start + step * i as i64;
            let fits = match repr {
                Repr::Int(Prim::U8) => d <= 255,
                Repr::Int(Prim::I8) => d <= 127,
                _ => true,
            };
            if explicit && !fits {
                break;
            }
            variants.push(VariantDef {
                name: format!("V{}", i),
                shape: Shape::Unit,
                fields: vec![],
                discr: if explicit { Some(d) } else { None },
                vfrom: 0,
                vto: None,
            });
        }
        if explicit {
            self.stat("unit_enum.explicit_discriminants");
        }
        self.stat(&format!("unit_enum.repr_{}", repr_class(repr)));
        let name = self.name("E");
        self.push(Def { name, repr, kind: DefKind::Enum { variants }, params: 0, recursive: false })
    }

    /// enum with data variants; primitive-repr ones are packed candidates
    pub fn gen_data_enum(&mut self, general: bool) -> usize {
        let repr = if general {
            match self.rng.below(6) {
                0 | 1 | 2 => Repr::Rust,
                3 => Repr::C,
                4 => Repr::Int(*self.rng.pick(&INT_REPRS)),
                _ => Repr::CInt(*self.rng.pick(&INT_REPRS)),
            }
        } else {
            match self.rng.below(6) {
                0 => Repr::CInt(*self.rng.pick(&INT_REPRS)),
                _ => Repr::Int(*self.rng.pick(&[Prim::U8, Prim::U8, Prim::I8, Prim::U16, Prim::U32])),
            }
        };
        let n = self.rng.range(1, 5);
        let mut variants = vec![];
        let mut any_data = false;
        let all_same = !general && self.rng.chance(1, 2);
        let same_p = *self.rng.pick(&[Prim::U8, Prim::I8, Prim::Bool, Prim::U16]);
        for i in 0..n {
            let shape = if i == n - 1 && !any_data {
                *self.rng.pick(&[Shape::Tuple, Shape::Named])
            } else if all_same {
                *self.rng.pick(&[Shape::Tuple, Shape::Named])
            } else {
                *self.rng.pick(&[Shape::Unit, Shape::Tuple, Shape::Named])
            };
            let mut fields = vec![];
            if shape != Shape::Unit {
                any_data = true;
                let nf = if all_same { 1 } else { self.rng.range(1, 3) };
                for k in 0..nf {
                    let ty = if general {
                        self.gen_ty(2, Caps::default())
                    } else if all_same {
                        Ty::Prim(same_p)
                    } else {
                        Ty::Prim(*self.rng.pick(&[Prim::U8, Prim::U8, Prim::I8, Prim::Bool, Prim::U16, Prim::U32]))
                    };
                    let fname = if shape == Shape::Tuple { format!("{}", k) } else { format!("f{}", k) };
                    fields.push(Field::plain(&fname, ty));
                }
            }
            variants.push(VariantDef { name: format!("V{}", i), shape, fields, discr: None, vfrom: 0, vto: None });
        }
        // No explicit discriminants on data-carrying enums: with an explicit integer repr the
        // derive conjures variants by writing the variant *index* as tag in a const context, so
        // a definition whose discriminants differ from the indices does not compile (it is
        // outside the set of definitions the derive accepts).
        // sometimes a variant that only exists from a later version on, declared before older ones
        // (the wire discriminant stays the declaration index at every version)
        if self.uni.version >= 1 && variants.len() >= 2 && self.rng.chance(1, 5) {
            let i = self.rng.range(1, variants.len() - 1).saturating_sub(if self.rng.chance(1, 2) { 1 } else { 0 }).max(if variants.len() > 2 { 0 } else { 1 });
            if i < variants.len() - 1 || variants.len() == 2 {
                let i = i.min(variants.len() - 1).max(1).min(variants.len() - 1);
                variants[i].vfrom = self.rng.range(1, self.uni.version as usize) as u32;
                self.stat("enum.versioned_variant_not_last");
            }
        }
        let mixed = variants.iter().any(|v| v.shape == Shape::Unit) && variants.iter().any(|v| v.shape != Shape::Unit);
        if mixed {
            self.stat("data_enum.mixed_unit_and_data");
        }
        self.stat(&format!("data_enum.repr_{}", repr_class(repr)));
        let name = self.name(if general { "G" } else { "Q" });
        self.push(Def { name, repr, kind: DefKind::Enum { variants }, params: 0, recursive: false })
    }

    /// struct with arbitrary field types and (sometimes) version/ignore/default attributes
    pub fn gen_general_struct(&mut self) -> usize {
        let shape = match self.rng.below(10) {
            0 => Shape::Unit,
            1 | 2 => Shape::Tuple,
            _ => Shape::Named,
        };
        let repr = *self.rng.pick(&[Repr::Rust, Repr::Rust, Repr::Rust, Repr::C]);
        let n = if shape == Shape::Unit { 0 } else { self.rng.range(1, 8) };
        let versioned = self.uni.version >= 1 && self.rng.chance(1, 4);
        let mut fields = vec![];
        for i in 0..n {
            let fname = if shape == Shape::Tuple { format!("{}", i) } else { format!("f{}", i) };
            let mut f = Field::plain(&fname, Ty::Unit);
            let mut need = Caps::default();
            let roll = self.rng.below(20);
            let v = self.uni.version;
            if versioned && roll < 8 {
                need.default = true;
                match roll {
                    0 | 1 | 2 => {
                        f.vfrom = self.rng.range(1, v as usize) as u32;
                        self.stat("struct.field_added");
                    }
                    3 | 4 => {
                        let to = self.rng.range(0, (v - 1) as usize) as u32;
                        let from = self.rng.range(0, to as usize) as u32;
                        f.vfrom = from;
                        f.vto = Some(to);
                        f.removed = *self.rng.pick(&[RemovedKind::Removed, RemovedKind::AbiRemoved]);
                        self.stat("struct.field_removed");
                    }
                    5 => {
                        let to = self.rng.range(0, (v - 1) as usize) as u32;
                        let from = self.rng.range(0, to as usize) as u32;
                        f.vfrom = from;
                        f.vto = Some(to);
                        self.stat("struct.field_closed_range_live");
                    }
                    _ => {
                        f.vfrom = self.rng.range(1, v as usize) as u32;
                        f.default = DefaultKind::Val(String::new());
                        self.stat("struct.field_added_default_val");
                    }
                }
            } else if roll == 19 && shape == Shape::Named {
                f.ignore = true;
                need.default = true;
                self.stat("struct.field_ignored");
            }
            if matches!(f.default, DefaultKind::Val(_)) {
                let p = *self.rng.pick(&[Prim::U8, Prim::I16, Prim::U32, Prim::I64, Prim::U64]);
                let k = self.rng.range(1, 120) as u128;
                f.ty = Ty::Prim(p);
                f.default = DefaultKind::Val(format!("{}", k));
                f.default_dv = Some(DV::N(k));
            } else {
                f.ty = self.gen_ty(3, need);
            }
            if shape == Shape::Named && self.rng.chance(1, 25) {
                f.introspect_ignore = true;
            }
            fields.push(f);
        }
        if shape == Shape::Named && n > 0 && self.rng.chance(1, 10) {
            let i = self.rng.below(n);
            if matches!(fields[i].ty, Ty::Prim(_) | Ty::Str) && fields[i].is_live() {
                fields[i].introspect_key = true;
            }
        }
        self.stat(&format!("struct.shape_{:?}", shape));
        let name = self.name("S");
        self.push(Def { name, repr, kind: DefKind::Struct { shape, fields }, params: 0, recursive: false })
    }

    pub fn gen_generic(&mut self) -> usize {
        let params = self.rng.range(1, 2);
        let is_enum = self.rng.chance(1, 3);
        let name = self.name("T");
        self.stat("generic_def");
        if is_enum {
            let repr = *self.rng.pick(&[Repr::Rust, Repr::Int(Prim::U8)]);
            let variants = vec![
                VariantDef { name: "V0".into(), shape: Shape::Tuple, fields: vec![Field::plain("0", Ty::Param(0))], discr: None, vfrom: 0, vto: None },
                VariantDef {
                    name: "V1".into(),
                    shape: Shape::Tuple,
                    fields: vec![Field::plain("0", Ty::Param(params - 1))],
                    discr: None,
                    vfrom: 0,
                    vto: None,
                },
            ];
            self.push(Def { name, repr, kind: DefKind::Enum { variants }, params, recursive: false })
        } else {
            let repr = *self.rng.pick(&[Repr::Rust, Repr::C]);
            let mut fields = vec![Field::plain("f0", Ty::Param(0))];
            if self.rng.chance(1, 2) {
                fields.push(Field::plain("f1", Ty::Prim(*self.rng.pick(&PACKABLE))));
            }
            if params == 2 {
                let t = if self.rng.chance(1, 2) { Ty::Param(1) } else { Ty::Seq(SeqKind::Vec, Box::new(Ty::Param(1))) };
                fields.push(Field::plain("f2", t));
            }
            self.push(Def { name, repr, kind: DefKind::Struct { shape: Shape::Named, fields }, params, recursive: false })
        }
    }

    pub fn gen_recursive(&mut self) -> usize {
        let idx = self.uni.defs.len();
        let name = self.name("R");
        self.stat("recursive_def");
        let link = match self.rng.below(3) {
            0 => Ty::Opt(Box::new(Ty::Wrap(WrapKind::Box, Box::new(Ty::Def(idx, vec![]))))),
            1 => Ty::Seq(SeqKind::Vec, Box::new(Ty::Def(idx, vec![]))),
            _ => Ty::Opt(Box::new(Ty::Wrap(WrapKind::Box, Box::new(Ty::Def(idx, vec![]))))),
        };
        let fields = vec![
            Field::plain("f0", Ty::Prim(*self.rng.pick(&[Prim::U8, Prim::U32, Prim::I64]))),
            Field::plain("f1", link),
            Field::plain("f2", Ty::Str),
        ];
        self.push(Def { name, repr: Repr::Rust, kind: DefKind::Struct { shape: Shape::Named, fields }, params: 0, recursive: true })
    }

    pub fn gen_transparent(&mut self) -> usize {
        let name = self.name("N");
        self.stat("newtype_transparent");
        let ty = self.gen_ty(1, Caps::default());
        let shape = *self.rng.pick(&[Shape::Tuple, Shape::Named]);
        let fname = if shape == Shape::Tuple { "0" } else { "f0" };
        let repr = *self.rng.pick(&[Repr::Transparent, Repr::Rust, Repr::C]);
        self.push(Def { name, repr, kind: DefKind::Struct { shape, fields: vec![Field::plain(fname, ty)] }, params: 0, recursive: false })
    }
}

pub fn repr_class(r: Repr) -> &'static str {
    match r {
        Repr::Rust => "Rust",
        Repr::C => "C",
        Repr::Int(_) => "Int",
        Repr::CInt(_) => "CInt",
        Repr::Transparent => "Transparent",
        Repr::CAlign(_) => "CAlign",
        Repr::Align(_) => "Align",
    }
}

/// Hand-written regression shapes that every batch contains (independent of the seed): the
/// kinds of definition the properties single out. They are ordinary inputs to the generic
/// oracles, nothing is special-cased.
fn fixed_defs(g: &mut Gen) {
    let f = |n: &str, t: Ty| Field::plain(n, t);
    let p = |x: Prim| Ty::Prim(x);
    // classic padding-free repr(C)
    g.push(Def {
        name: format!("{}Fix0", g.prefix),
        repr: Repr::C,
        kind: DefKind::Struct { shape: Shape::Named, fields: vec![f("f0", p(Prim::U32)), f("f1", p(Prim::U32))] },
        params: 0,
        recursive: false,
    });
    // interior padding
    g.push(Def {
        name: format!("{}Fix1", g.prefix),
        repr: Repr::C,
        kind: DefKind::Struct { shape: Shape::Named, fields: vec![f("f0", p(Prim::U8)), f("f1", p(Prim::U32))] },
        params: 0,
        recursive: false,
    });
    // trailing padding
    g.push(Def {
        name: format!("{}Fix2", g.prefix),
        repr: Repr::C,
        kind: DefKind::Struct { shape: Shape::Named, fields: vec![f("f0", p(Prim::U32)), f("f1", p(Prim::U8))] },
        params: 0,
        recursive: false,
    });
    // padding-free repr(C) struct with a live field that is only serialized in version 1
    let mut mid = f("f1", p(Prim::U32));
    mid.vfrom = 1;
    mid.vto = Some(1);
    g.push(Def {
        name: format!("{}Fix4", g.prefix),
        repr: Repr::C,
        kind: DefKind::Struct { shape: Shape::Named, fields: vec![f("f0", p(Prim::U32)), mid, f("f2", p(Prim::U32))] },
        params: 0,
        recursive: false,
    });
    // fieldless enum with explicit discriminants and an explicit integer repr
    g.push(Def {
        name: format!("{}Fix5", g.prefix),
        repr: Repr::Int(Prim::U8),
        kind: DefKind::Enum {
            variants: vec![
                VariantDef { name: "V0".into(), shape: Shape::Unit, fields: vec![], discr: Some(5), vfrom: 0, vto: None },
                VariantDef { name: "V1".into(), shape: Shape::Unit, fields: vec![], discr: Some(7), vfrom: 0, vto: None },
            ],
        },
        params: 0,
        recursive: false,
    });
    // enum mixing a unit variant and a one-byte data variant
    g.push(Def {
        name: format!("{}Fix6", g.prefix),
        repr: Repr::Int(Prim::U8),
        kind: DefKind::Enum {
            variants: vec![
                VariantDef { name: "V0".into(), shape: Shape::Unit, fields: vec![], discr: None, vfrom: 0, vto: None },
                VariantDef { name: "V1".into(), shape: Shape::Tuple, fields: vec![f("0", p(Prim::U8))], discr: None, vfrom: 0, vto: None },
            ],
        },
        params: 0,
        recursive: false,
    });
    // struct holding the two enums above next to a byte (a packed parent copies the child's bytes)
    let i5 = g.uni.defs.len() - 2;
    g.push(Def {
        name: format!("{}Fix7", g.prefix),
        repr: Repr::C,
        kind: DefKind::Struct {
            shape: Shape::Named,
            fields: vec![f("f0", Ty::Def(i5, vec![])), f("f1", Ty::Def(i5 + 1, vec![])), f("f2", p(Prim::U8))],
        },
        params: 0,
        recursive: false,
    });
    // usize field (8 bytes on the wire, pointer-sized in memory)
    g.push(Def {
        name: format!("{}Fix3", g.prefix),
        repr: Repr::C,
        kind: DefKind::Struct { shape: Shape::Named, fields: vec![f("f0", p(Prim::Usize)), f("f1", p(Prim::U64))] },
        params: 0,
        recursive: false,
    });
    // padding-free repr(C) struct whose middle field existed only in version 1 and is gone from memory
    let mut gone = f("f1", p(Prim::U32));
    gone.vfrom = 1;
    gone.vto = Some(1);
    gone.removed = RemovedKind::AbiRemoved;
    g.push(Def {
        name: format!("{}Fix8", g.prefix),
        repr: Repr::C,
        kind: DefKind::Struct { shape: Shape::Named, fields: vec![f("f0", p(Prim::U32)), gone, f("f2", p(Prim::U32))] },
        params: 0,
        recursive: false,
    });
    // padding-free repr(C) struct with two added fields, the newer one declared first
    let mut a2 = f("f0", p(Prim::U32));
    a2.vfrom = 2;
    let mut a1 = f("f1", p(Prim::U32));
    a1.vfrom = 1;
    g.push(Def {
        name: format!("{}Fix9", g.prefix),
        repr: Repr::C,
        kind: DefKind::Struct { shape: Shape::Named, fields: vec![a2, a1, f("f2", p(Prim::U32))] },
        params: 0,
        recursive: false,
    });
    // over-aligned single-field wrapper (trailing padding only)
    g.push(Def {
        name: format!("{}Fix10", g.prefix),
        repr: Repr::CAlign(8),
        kind: DefKind::Struct { shape: Shape::Tuple, fields: vec![f("0", p(Prim::U32))] },
        params: 0,
        recursive: false,
    });
    // ignored field in the middle of a run of same-size fields (the derive writes such runs as one region)
    for (k, repr) in [(12, Repr::Rust), (13, Repr::C)] {
        let mut ign = f("f2", p(Prim::U32));
        ign.ignore = true;
        g.push(Def {
            name: format!("{}Fix{}", g.prefix, k),
            repr,
            kind: DefKind::Struct {
                shape: Shape::Named,
                fields: vec![f("f0", p(Prim::U32)), f("f1", p(Prim::U32)), ign, f("f3", p(Prim::U32)), f("f4", Ty::Str)],
            },
            params: 0,
            recursive: false,
        });
    }
    // int-repr enum whose first data variant is padding-free while a later one has a gap behind the tag
    g.push(Def {
        name: format!("{}Fix14", g.prefix),
        repr: Repr::Int(Prim::U16),
        kind: DefKind::Enum {
            variants: vec![
                VariantDef { name: "V0".into(), shape: Shape::Tuple, fields: vec![f("0", p(Prim::U16)), f("1", p(Prim::U32))], discr: None, vfrom: 0, vto: None },
                VariantDef { name: "V1".into(), shape: Shape::Tuple, fields: vec![f("0", p(Prim::U32))], discr: None, vfrom: 0, vto: None },
            ],
        },
        params: 0,
        recursive: false,
    });
    // field-less enums without an integer repr around the one-byte discriminant limit
    for (k, n) in [(15, 255usize), (16, 256)] {
        g.push(Def {
            name: format!("{}Fix{}", g.prefix, k),
            repr: Repr::Rust,
            kind: DefKind::Enum { variants: (0..n).map(|i| VariantDef { name: format!("V{}", i), shape: Shape::Unit, fields: vec![], discr: None, vfrom: 0, vto: None }).collect() },
            params: 0,
            recursive: false,
        });
    }
    // enum with a later-version variant declared between two older ones
    g.push(Def {
        name: format!("{}Fix17", g.prefix),
        repr: Repr::Rust,
        kind: DefKind::Enum {
            variants: vec![
                VariantDef { name: "V0".into(), shape: Shape::Tuple, fields: vec![f("0", p(Prim::U32))], discr: None, vfrom: 0, vto: None },
                VariantDef { name: "V1".into(), shape: Shape::Named, fields: vec![f("f0", p(Prim::U16))], discr: None, vfrom: 1, vto: None },
                VariantDef { name: "V2".into(), shape: Shape::Tuple, fields: vec![f("0", p(Prim::U8)), f("1", p(Prim::U8))], discr: None, vfrom: 0, vto: None },
            ],
        },
        params: 0,
        recursive: false,
    });
    // repr(Rust) struct of one-byte fields, some with a niche (the compiler may reorder them)
    g.push(Def {
        name: format!("{}Fix11", g.prefix),
        repr: Repr::Rust,
        kind: DefKind::Struct {
            shape: Shape::Named,
            fields: vec![f("f0", p(Prim::Bool)), f("f1", p(Prim::U8)), f("f2", p(Prim::Bool)), f("f3", p(Prim::U8))],
        },
        params: 0,
        recursive: false,
    });
}

pub fn gen_data_batch(seed: u64, n_defs: usize, module: &str, name_prefix: &str) -> DataBatch {
    let mut g = Gen::new(seed, module, 2 + (crate::rng::fnv64(&seed.to_le_bytes()) % 3) as u32, name_prefix);
    fixed_defs(&mut g);
    while g.uni.defs.len() < n_defs {
        match g.rng.weighted(&[22, 12, 12, 26, 14, 5, 3, 6]) {
            0 => g.gen_packed_struct(),
            1 => g.gen_unit_enum(),
            2 => g.gen_data_enum(false),
            3 => g.gen_general_struct(),
            4 => g.gen_data_enum(true),
            5 => g.gen_generic(),
            6 => g.gen_recursive(),
            _ => g.gen_transparent(),
        };
    }
    // roots: every non-generic def; generic defs with 2 instantiations; composite catalogue types
    let mut roots = vec![];
    for i in 0..g.uni.defs.len() {
        let d = g.uni.defs[i].clone();
        if d.params == 0 {
            roots.push(Root { ty: Ty::Def(i, vec![]), class: format!("def.{}", def_class(&d)) });
            // a struct wrapping the def next to a byte, so the def is also exercised as a field
            // (single values are read field by field; a packed parent copies the child's bytes)
        } else {
            for _ in 0..2 {
                let args: Vec<Ty> = (0..d.params).map(|_| g.gen_ty(1, Caps::default())).collect();
                roots.push(Root { ty: Ty::Def(i, args), class: "def.generic_inst".into() });
            }
        }
    }
    let n_cat = n_defs / 2;
    g.allow_cell = true;
    for _ in 0..n_cat {
        let t = g.gen_ty(3, Caps::default());
        if matches!(t, Ty::Def(_, ref a) if a.is_empty()) {
            continue;
        }
        roots.push(Root { ty: t, class: "catalogue".into() });
    }
    // plain primitives, strings and every catalogue leaf / container kind as roots (fixed)
    for p in ALL_PRIMS {
        roots.push(Root { ty: Ty::Prim(p), class: "prim".into() });
    }
    roots.push(Root { ty: Ty::Str, class: "prim".into() });
    let bx = |t: Ty| Box::new(t);
    let u32t = Ty::Prim(Prim::U32);
    let fixed_cat: Vec<Ty> = vec![
        Ty::Unit,
        Ty::Leaf(Leaf::ArcStr),
        Ty::Leaf(Leaf::ArrayString(16)),
        Ty::Leaf(Leaf::PathBuf),
        Ty::Leaf(Leaf::CowStr),
        Ty::Leaf(Leaf::Duration),
        Ty::Leaf(Leaf::SystemTime),
        Ty::Leaf(Leaf::IpAddr),
        Ty::Leaf(Leaf::SocketAddr),
        Ty::Leaf(Leaf::BitVec),
        Ty::Leaf(Leaf::BitSet),
        Ty::Leaf(Leaf::BitVec08),
        Ty::Leaf(Leaf::BitSet08),
        Ty::Leaf(Leaf::Atomic(Prim::Bool)),
        Ty::Leaf(Leaf::Atomic(Prim::I16)),
        Ty::Leaf(Leaf::Atomic(Prim::Usize)),
        Ty::Leaf(Leaf::Phantom),
        Ty::Leaf(Leaf::Canary1),
        Ty::Leaf(Leaf::IoError),
        Ty::Leaf(Leaf::DateTimeUtc),
        Ty::Opt(bx(Ty::Str)),
        Ty::Res(bx(u32t.clone()), bx(Ty::Str)),
        Ty::Seq(SeqKind::Vec, bx(Ty::Prim(Prim::U8))),
        // items written one by one (not bulk-copyable): large values cross the encryption block inside the sequence
        Ty::Seq(SeqKind::Vec, bx(Ty::Prim(Prim::Usize))),
        Ty::Seq(SeqKind::Vec, bx(Ty::Prim(Prim::Bool))),
        Ty::Seq(SeqKind::Vec, bx(Ty::Prim(Prim::Char))),
        Ty::Seq(SeqKind::Vec, bx(Ty::Str)),
        Ty::Seq(SeqKind::Vec, bx(Ty::Leaf(Leaf::ArcStr))),
        Ty::Seq(SeqKind::VecDeque, bx(Ty::Prim(Prim::U16))),
        Ty::Seq(SeqKind::BinaryHeap, bx(Ty::Prim(Prim::I32))),
        Ty::Seq(SeqKind::BoxSlice, bx(Ty::Prim(Prim::U64))),
        Ty::Seq(SeqKind::ArcSlice, bx(Ty::Prim(Prim::F32))),
        Ty::Seq(SeqKind::SmallVec(2), bx(Ty::Str)),
        Ty::Seq(SeqKind::ArrayVec(3), bx(Ty::Prim(Prim::U32))),
        Ty::Set(SetKind::Hash, bx(Ty::Str)),
        Ty::Set(SetKind::BTree, bx(Ty::Prim(Prim::I64))),
        Ty::Set(SetKind::Index, bx(Ty::Prim(Prim::Char))),
        Ty::Map(MapKind::Hash, bx(u32t.clone()), bx(Ty::Seq(SeqKind::Vec, bx(u32t.clone())))),
        Ty::Map(MapKind::Hash, bx(Ty::Str), bx(Ty::Map(MapKind::Hash, bx(Ty::Str), bx(u32t.clone())))),
        Ty::Map(MapKind::BTree, bx(Ty::Str), bx(Ty::Opt(bx(u32t.clone())))),
        Ty::Map(MapKind::Index, bx(u32t.clone()), bx(Ty::Seq(SeqKind::Vec, bx(u32t.clone())))),
        Ty::Array(bx(Ty::Prim(Prim::U16)), 4),
        Ty::Array(bx(Ty::Str), 0),
        // zero-sized but aligned items (a Vec of them is read without touching the input)
        Ty::Array(bx(u32t.clone()), 0),
        Ty::Array(bx(Ty::Prim(Prim::U64)), 0),
        Ty::Seq(SeqKind::Vec, bx(Ty::Array(bx(Ty::Prim(Prim::U16)), 0))),
        Ty::Unit,
        Ty::Tuple(vec![Ty::Prim(Prim::U8)]),
        Ty::Tuple(vec![Ty::Prim(Prim::U8), Ty::Prim(Prim::U32)]),
        Ty::Tuple(vec![Ty::Prim(Prim::U16), Ty::Prim(Prim::U16), Ty::Prim(Prim::U16)]),
        Ty::Wrap(WrapKind::Box, bx(Ty::Str)),
        Ty::Wrap(WrapKind::Rc, bx(u32t.clone())),
        Ty::Wrap(WrapKind::Arc, bx(Ty::Seq(SeqKind::Vec, bx(u32t.clone())))),
        Ty::Wrap(WrapKind::Cell, bx(u32t.clone())),
        Ty::Wrap(WrapKind::RefCell, bx(Ty::Str)),
        Ty::Wrap(WrapKind::StdMutex, bx(u32t.clone())),
        Ty::Wrap(WrapKind::PlMutex, bx(Ty::Str)),
        Ty::Wrap(WrapKind::PlRwLock, bx(u32t.clone())),
        Ty::Range(bx(u32t.clone())),
    ];
    for t in fixed_cat {
        roots.push(Root { ty: t, class: "catalogue_fixed".into() });
    }
    {
        let mut seen = std::collections::HashSet::new();
        roots.retain(|r| seen.insert(r.ty.clone()));
    }
    DataBatch { seed, uni: g.uni, roots, stats: g.stats }
}

pub fn def_class(d: &Def) -> String {
    match &d.kind {
        DefKind::Struct { .. } => format!("struct.{}", repr_class(d.repr)),
        DefKind::Enum { variants } => {
            let any_data = variants.iter().any(|v| v.shape != Shape::Unit);
            format!("enum.{}.{}", if any_data { "data" } else { "unit" }, repr_class(d.repr))
        }
    }
}
