//! Rust emitter: IR -> source with #[derive(Savefile)] + `Dyn` glue + root registry.

use crate::dv::DV;
use crate::gen::DataBatch;
use crate::ir::*;
use std::fmt::Write;

fn field_attrs(f: &Field) -> String {
    let mut s = String::new();
    if f.has_version_attr() {
        let to = match f.vto {
            Some(t) => format!("{}", t),
            None => String::new(),
        };
        let from = if f.vfrom == 0 && f.vto.is_some() { String::new() } else { format!("{}", f.vfrom) };
        write!(s, "#[savefile_versions=\"{}..{}\"] ", from, to).unwrap();
    }
    for va in &f.versions_as {
        let tyname = match &va.ty {
            Ty::Prim(p) => p.rust().to_string(),
            Ty::Str => "String".to_string(),
            other => panic!("versions_as type must be an identifier: {:?}", other),
        };
        match &va.conv {
            Conv::From => write!(s, "#[savefile_versions_as=\"{}..{}:{}\"] ", va.from, va.to, tyname).unwrap(),
            Conv::FnToString(n) | Conv::FnCastAdd(n, _) => {
                write!(s, "#[savefile_versions_as=\"{}..{}:{}:{}\"] ", va.from, va.to, n, tyname).unwrap()
            }
        }
    }
    match &f.default {
        DefaultKind::Trait => {}
        DefaultKind::Val(v) => write!(s, "#[savefile_default_val=\"{}\"] ", v).unwrap(),
        DefaultKind::Fn(n) => write!(s, "#[savefile_default_fn=\"{}\"] ", n).unwrap(),
    }
    if f.ignore {
        s.push_str("#[savefile_ignore] ");
    }
    if f.introspect_ignore {
        s.push_str("#[savefile_introspect_ignore] ");
    }
    if f.introspect_key {
        s.push_str("#[savefile_introspect_key] ");
    }
    s
}

fn field_ty(u: &Universe, f: &Field) -> String {
    let t = u.rust_ty(&f.ty, "");
    match f.removed {
        RemovedKind::No => t,
        RemovedKind::Removed => format!("Removed<{}>", t),
        RemovedKind::AbiRemoved => match &f.abi_ctor {
            Some((ctor, _)) => format!("AbiRemoved<{}, {}>", t, ctor),
            None => format!("AbiRemoved<{}>", t),
        },
    }
}

fn removed_ctor(f: &Field) -> &'static str {
    match f.removed {
        RemovedKind::Removed => "Removed::new()",
        RemovedKind::AbiRemoved => "AbiRemoved::new()",
        RemovedKind::No => unreachable!(),
    }
}

/// Rust expression constructing the value `dv` of type `ty` (used for default_fn / ctor bodies)
pub fn value_expr(u: &Universe, ty: &Ty, dv: &DV) -> String {
    // go through the Dyn glue: robust for every type
    let json = serde_json::to_string(dv).unwrap();
    format!(
        "<{} as Dyn>::from_dyn(&hcore::serde_json::from_str::<DV>({:?}).unwrap())",
        u.rust_ty(ty, ""),
        json
    )
}

fn generics_decl(d: &Def, bound: &str) -> (String, String) {
    if d.params == 0 {
        return (String::new(), String::new());
    }
    let ps: Vec<String> = (0..d.params).map(|i| format!("T{}", i)).collect();
    let with_bounds: Vec<String> = ps.iter().map(|p| if bound.is_empty() { p.clone() } else { format!("{}: {}", p, bound) }).collect();
    (format!("<{}>", with_bounds.join(", ")), format!("<{}>", ps.join(", ")))
}

fn emit_fields_decl(u: &Universe, shape: Shape, fields: &[Field], public: bool, out: &mut String) {
    let vis = if public { "pub " } else { "" };
    match shape {
        Shape::Unit => {}
        Shape::Named => {
            out.push_str(" {\n");
            for f in fields {
                writeln!(out, "        {}{}{}: {},", field_attrs(f), vis, f.name, field_ty(u, f)).unwrap();
            }
            out.push_str("    }");
        }
        Shape::Tuple => {
            out.push('(');
            for f in fields {
                write!(out, "{}{}{}, ", field_attrs(f), vis, field_ty(u, f)).unwrap();
            }
            out.push(')');
        }
    }
}

fn ctor_expr(path: &str, shape: Shape, fields: &[Field]) -> String {
    // value list `l` in scope
    let mut li = 0;
    let mut parts = vec![];
    for f in fields {
        let e = if f.is_live() {
            let e = format!("Dyn::from_dyn(&l[{}])", li);
            li += 1;
            e
        } else {
            removed_ctor(f).to_string()
        };
        parts.push((f.name.clone(), e));
    }
    match shape {
        Shape::Unit => path.to_string(),
        Shape::Named => format!("{} {{ {} }}", path, parts.iter().map(|(n, e)| format!("{}: {}", n, e)).collect::<Vec<_>>().join(", ")),
        Shape::Tuple => format!("{}({})", path, parts.iter().map(|(_, e)| e.clone()).collect::<Vec<_>>().join(", ")),
    }
}

pub fn emit_def(u: &Universe, idx: usize, out: &mut String) {
    let d = &u.defs[idx];
    // capabilities decide the extra derives (params treated as fully capable)
    let unit_args: Vec<Ty> = (0..d.params).map(|_| Ty::Unit).collect();
    let caps = u.def_own_caps(idx, unit_args);
    let mut derives = vec!["Savefile"];
    if caps.copy {
        derives.push("Clone");
        derives.push("Copy");
    }
    if caps.key {
        derives.extend(["PartialEq", "Eq", "Hash", "PartialOrd", "Ord"]);
    }
    let is_enum = d.is_enum();
    let has_removed = d.fields_all().iter().any(|f| !f.is_live());
    if caps.default && !is_enum && !has_removed {
        derives.push("Default");
    }
    writeln!(out, "    #[derive({})]", derives.join(", ")).unwrap();
    let ra = d.repr.attr();
    if !ra.is_empty() {
        writeln!(out, "    {}", ra).unwrap();
    }
    let (gdecl, guse) = generics_decl(d, "");
    match &d.kind {
        DefKind::Struct { shape, fields } => {
            write!(out, "    pub struct {}{}", d.name, gdecl).unwrap();
            emit_fields_decl(u, *shape, fields, true, out);
            if *shape != Shape::Named {
                out.push(';');
            }
            out.push('\n');
            if caps.default && has_removed {
                // AbiRemoved has no Default impl: write the impl by hand
                let parts: Vec<(String, String)> = fields
                    .iter()
                    .map(|f| (f.name.clone(), if f.is_live() { "Default::default()".to_string() } else { removed_ctor(f).to_string() }))
                    .collect();
                let body = match shape {
                    Shape::Unit => d.name.clone(),
                    Shape::Named => format!("{} {{ {} }}", d.name, parts.iter().map(|(n, e)| format!("{}: {}", n, e)).collect::<Vec<_>>().join(", ")),
                    Shape::Tuple => format!("{}({})", d.name, parts.iter().map(|(_, e)| e.clone()).collect::<Vec<_>>().join(", ")),
                };
                let (gb, gu) = generics_decl(d, "Default");
                writeln!(out, "    impl{} Default for {}{} {{ fn default() -> Self {{ {} }} }}", gb, d.name, gu, body).unwrap();
            }
        }
        DefKind::Enum { variants } => {
            writeln!(out, "    pub enum {}{} {{", d.name, gdecl).unwrap();
            for v in variants {
                let mut attrs = String::new();
                if v.vfrom != 0 || v.vto.is_some() {
                    let to = v.vto.map(|t| t.to_string()).unwrap_or_default();
                    write!(attrs, "#[savefile_versions=\"{}..{}\"] ", v.vfrom, to).unwrap();
                }
                write!(out, "        {}{}", attrs, v.name).unwrap();
                emit_fields_decl(u, v.shape, &v.fields, false, out);
                if let Some(x) = v.discr {
                    write!(out, " = {}", x).unwrap();
                }
                out.push_str(",\n");
            }
            out.push_str("    }\n");
            if caps.default {
                let (gb, _) = generics_decl(d, "Default");
                writeln!(out, "    impl{} Default for {}{} {{ fn default() -> Self {{ {}::{} }} }}", gb, d.name, guse, d.name, variants[0].name).unwrap();
            }
        }
    }
    // Dyn glue
    let (gb, _) = generics_decl(d, "Dyn");
    writeln!(out, "    impl{} Dyn for {}{} {{", gb, d.name, guse).unwrap();
    match &d.kind {
        DefKind::Struct { shape, fields } => {
            let live: Vec<String> = fields
                .iter()
                .filter(|f| f.is_live())
                .map(|f| format!("Dyn::to_dyn(&self.{})", f.name))
                .collect();
            writeln!(out, "        fn to_dyn(&self) -> DV {{ DV::L(vec![{}]) }}", live.join(", ")).unwrap();
            writeln!(out, "        fn from_dyn(d: &DV) -> Self {{ let l = d.l(); {} }}", ctor_expr(&d.name, *shape, fields)).unwrap();
        }
        DefKind::Enum { variants } => {
            // Enums with an explicit integer repr can be filled by raw memory copies (packed fast
            // path); look at the raw tag first, so that an invalid in-memory value is reported
            // as data instead of being undefined behaviour in the `match`.
            let mut raw_check = String::new();
            if let Repr::Int(p) | Repr::CInt(p) = d.repr {
                let mut prev: i128 = -1;
                let mut valid: Vec<String> = vec![];
                for v in variants.iter() {
                    let val = match v.discr {
                        Some(x) => x as i128,
                        None => prev + 1,
                    };
                    prev = val;
                    valid.push(format!("{}", val));
                }
                if d.params == 0 && valid.len() <= 300 {
                    raw_check = format!(
                        "let raw = unsafe {{ std::ptr::read_volatile(self as *const Self as *const {ty}) }} as i128; if ![{vals}].contains(&raw) {{ return DV::V(u32::MAX - 1, vec![DV::N(raw as u128)]); }} ",
                        ty = p.rust(),
                        vals = valid.join(", ")
                    );
                }
            }
            writeln!(out, "        fn to_dyn(&self) -> DV {{ {}match self {{", raw_check).unwrap();
            for (vi, v) in variants.iter().enumerate() {
                let binds: Vec<String> = v.fields.iter().enumerate().map(|(k, f)| if f.is_live() { format!("x{}", k) } else { "_".to_string() }).collect();
                let vals: Vec<String> = v
                    .fields
                    .iter()
                    .enumerate()
                    .filter(|(_, f)| f.is_live())
                    .map(|(k, _)| format!("Dyn::to_dyn(x{})", k))
                    .collect();
                let pat = match v.shape {
                    Shape::Unit => format!("{}::{}", d.name, v.name),
                    Shape::Tuple => format!("{}::{}({})", d.name, v.name, binds.join(", ")),
                    Shape::Named => format!(
                        "{}::{} {{ {} }}",
                        d.name,
                        v.name,
                        v.fields.iter().zip(&binds).map(|(f, b)| format!("{}: {}", f.name, b)).collect::<Vec<_>>().join(", ")
                    ),
                };
                writeln!(out, "            {} => DV::V({}, vec![{}]),", pat, vi, vals.join(", ")).unwrap();
            }
            out.push_str("        } }\n");
            out.push_str("        fn from_dyn(d: &DV) -> Self { let (i, l) = d.v(); match i {\n");
            for (vi, v) in variants.iter().enumerate() {
                writeln!(out, "            {} => {},", vi, ctor_expr(&format!("{}::{}", d.name, v.name), v.shape, &v.fields)).unwrap();
            }
            writeln!(out, "            _ => panic!(\"bad variant index for {}\"),", d.name).unwrap();
            out.push_str("        } }\n");
        }
    }
    out.push_str("    }\n");
    // helper functions named by attributes
    for f in d.fields_all() {
        if let DefaultKind::Fn(name) = &f.default {
            writeln!(
                out,
                "    pub fn {}() -> {} {{ {} }}",
                name,
                u.rust_ty(&f.ty, ""),
                value_expr(u, &f.ty, f.default_dv.as_ref().unwrap())
            )
            .unwrap();
        }
        if let Some((ctor, dv)) = &f.abi_ctor {
            writeln!(out, "    pub struct {};", ctor).unwrap();
            writeln!(
                out,
                "    impl ValueConstructor<{t}> for {c} {{ fn make_value() -> {t} {{ {e} }} }}",
                t = u.rust_ty(&f.ty, ""),
                c = ctor,
                e = value_expr(u, &f.ty, dv)
            )
            .unwrap();
        }
        for va in &f.versions_as {
            let old = match &va.ty {
                Ty::Prim(p) => p.rust().to_string(),
                Ty::Str => "String".into(),
                _ => unreachable!(),
            };
            let new = u.rust_ty(&f.ty, "");
            match &va.conv {
                Conv::From => {}
                Conv::FnToString(n) => writeln!(out, "    pub fn {}(x: {}) -> {} {{ x.to_string() }}", n, old, new).unwrap(),
                Conv::FnCastAdd(n, k) => {
                    writeln!(out, "    pub fn {}(x: {}) -> {} {{ (x as {}).wrapping_add({} as {}) }}", n, old, new, new, k, new).unwrap()
                }
            }
        }
    }
    out.push('\n');
}

pub const MODULE_PRELUDE: &str = "    #![allow(warnings)]\n    use savefile::prelude::*;\n    use savefile::{AbiRemoved, Removed, ValueConstructor};\n    use hcore::dynglue::Dyn;\n    use hcore::vcore::dv::DV;\n";

/// Emit one module `pub mod <name> { defs; roots() }` for a data batch.
pub fn emit_data_module(b: &DataBatch, modname: &str, json_file: &str) -> String {
    let mut out = String::new();
    writeln!(out, "pub mod {} {{", modname).unwrap();
    out.push_str(MODULE_PRELUDE);
    for i in 0..b.uni.defs.len() {
        emit_def(&b.uni, i, &mut out);
    }
    writeln!(out, "    pub const IR_JSON: &str = include_str!(\"{}\");", json_file).unwrap();
    out.push_str("    pub fn roots() -> Vec<Box<dyn hcore::ops::TypeOps>> {\n        vec![\n");
    for r in &b.roots {
        writeln!(out, "            hcore::ops::mk::<{}>(),", b.uni.rust_ty(&r.ty, "")).unwrap();
    }
    out.push_str("        ]\n    }\n");
    // introspection registry (None for types without an Introspect impl)
    out.push_str("    pub fn intro_roots() -> Vec<Option<Box<dyn hcore::intro::IntroOps>>> {\n        vec![\n");
    for r in &b.roots {
        if introspectable(&b.uni, &r.ty) {
            writeln!(out, "            hcore::intro::mk::<{}>(),", b.uni.rust_ty(&r.ty, "")).unwrap();
        } else {
            out.push_str("            hcore::intro::none(),\n");
        }
    }
    out.push_str("        ]\n    }\n}\n");
    out
}

/// Types for which the library provides `Introspect` (found by compiling: Cell, io::Error,
/// Range and a few leaves have no impl).
pub fn introspectable(u: &Universe, ty: &Ty) -> bool {
    !u.any_ty(ty, &|t| {
        matches!(
            t,
            Ty::Wrap(WrapKind::Cell, _) | Ty::Leaf(Leaf::IoError)
        )
    })
}
