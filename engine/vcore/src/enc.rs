//! Independent reference codec for the documented savefile wire format (DESIGN.md appendix B).
//! Written from the documentation only; never calls savefile. Partial on purpose: where the
//! documentation does not determine the bytes (private leaf encodings) it answers `NoExp`
//! ("no expectation") and the checks fall back to relations that need no model.

use crate::dv::DV;
use crate::ir::*;

#[derive(Clone, Copy, Debug, PartialEq, Eq, Hash, PartialOrd, Ord)]
pub enum Role {
    Len,
    Tag,
    Discr,
    Bool,
    Char,
    Int,
    Float,
    StrData,
}

#[derive(Clone, Debug, Default)]
pub struct Ann {
    pub bytes: Vec<u8>,
    pub spans: Vec<(usize, usize, Role)>,
}

impl Ann {
    fn put(&mut self, data: &[u8], role: Role) {
        let s = self.bytes.len();
        self.bytes.extend_from_slice(data);
        self.spans.push((s, self.bytes.len(), role));
    }
}

#[derive(Clone, Debug, PartialEq, Eq)]
pub enum EncErr {
    /// documentation does not determine the encoding
    NoExp(String),
    /// the documented behaviour is that the writer refuses (Removed<T> written, variant absent at version)
    WriterRejects(String),
}

#[derive(Clone, Debug, PartialEq, Eq)]
pub enum DecErr {
    NoExp(String),
    Eof,
    Invalid(String),
    /// a declared length that the remaining input cannot possibly encode
    HugeLen { declared: u64, remaining: usize, min_elem: usize },
    Trailing(usize),
}

pub const MAGIC: &[u8; 9] = b"savefile\0";
pub const FORMAT_VERSION: u16 = 2;

/// File header: magic, u16 format version, u32 data version, u8 compression flag.
pub fn header(data_version: u32, compressed: bool) -> Vec<u8> {
    let mut h = MAGIC.to_vec();
    h.extend_from_slice(&FORMAT_VERSION.to_le_bytes());
    h.extend_from_slice(&data_version.to_le_bytes());
    h.push(if compressed { 1 } else { 0 });
    h
}
pub const HEADER_LEN: usize = 16;

fn le(x: u128, n: usize) -> Vec<u8> {
    x.to_le_bytes()[..n].to_vec()
}

impl Universe {
    pub fn enc(&self, ty: &Ty, v: u32, dv: &DV) -> Result<Ann, EncErr> {
        let mut a = Ann::default();
        self.enc_into(ty, v, dv, &mut a)?;
        Ok(a)
    }

    fn enc_seq(&self, elem: &Ty, v: u32, xs: &[DV], out: &mut Ann) -> Result<(), EncErr> {
        out.put(&(xs.len() as u64).to_le_bytes(), Role::Len);
        for x in xs {
            self.enc_into(elem, v, x, out)?;
        }
        Ok(())
    }

    fn enc_fields(&self, fields: &[Field], args: &[Ty], v: u32, vals: &[DV], out: &mut Ann) -> Result<(), EncErr> {
        let mut li = 0usize;
        for f in fields {
            let fty = Self::subst(&f.ty, args);
            if f.is_live() {
                let val = &vals[li];
                li += 1;
                if f.ignore {
                    continue;
                }
                match f.wire_ty(v) {
                    None => {}
                    Some((_, None)) => self.enc_into(&fty, v, val, out)?,
                    Some((_, Some(_))) => {
                        return Err(EncErr::NoExp(format!(
                            "field {} written at version {} covered by savefile_versions_as",
                            f.name, v
                        )))
                    }
                }
            } else if f.on_wire(v) {
                match f.removed {
                    RemovedKind::Removed => {
                        return Err(EncErr::WriterRejects(format!("Removed field {} at version {}", f.name, v)))
                    }
                    RemovedKind::AbiRemoved => {
                        let val = match &f.abi_ctor {
                            Some((_, dv)) => dv.clone(),
                            None => self.default_dv(&fty),
                        };
                        self.enc_into(&fty, v, &val, out)?;
                    }
                    RemovedKind::No => unreachable!(),
                }
            }
        }
        Ok(())
    }

    pub fn enc_into(&self, ty: &Ty, v: u32, dv: &DV, out: &mut Ann) -> Result<(), EncErr> {
        match ty {
            Ty::Prim(p) => {
                let x = dv.n();
                let role = match p {
                    Prim::Bool => Role::Bool,
                    Prim::Char => Role::Char,
                    Prim::F32 | Prim::F64 => Role::Float,
                    _ => Role::Int,
                };
                out.put(&le(x, p.wire_size()), role);
            }
            Ty::Str => {
                let s = dv.s();
                out.put(&(s.len() as u64).to_le_bytes(), Role::Len);
                out.put(s.as_bytes(), Role::StrData);
            }
            Ty::Unit => {}
            Ty::Opt(a) => {
                let (i, xs) = dv.v();
                out.put(&[i as u8], Role::Tag);
                if i == 1 {
                    self.enc_into(a, v, &xs[0], out)?;
                }
            }
            Ty::Res(a, b) => {
                let (i, xs) = dv.v();
                out.put(&[i as u8], Role::Tag);
                self.enc_into(if i == 1 { a } else { b }, v, &xs[0], out)?;
            }
            Ty::Seq(_, a) | Ty::Set(_, a) => self.enc_seq(a, v, dv.l(), out)?,
            Ty::Map(_, k, val) => {
                let xs = dv.l();
                out.put(&(xs.len() as u64).to_le_bytes(), Role::Len);
                for kv in xs {
                    let kv = kv.l();
                    self.enc_into(k, v, &kv[0], out)?;
                    self.enc_into(val, v, &kv[1], out)?;
                }
            }
            Ty::Array(a, _) => {
                for x in dv.l() {
                    self.enc_into(a, v, x, out)?;
                }
            }
            Ty::Tuple(ts) => {
                for (t, x) in ts.iter().zip(dv.l()) {
                    self.enc_into(t, v, x, out)?;
                }
            }
            Ty::Wrap(_, a) => self.enc_into(a, v, dv, out)?,
            Ty::Range(a) => {
                let xs = dv.l();
                self.enc_into(a, v, &xs[0], out)?;
                self.enc_into(a, v, &xs[1], out)?;
            }
            Ty::Leaf(l) => match l {
                Leaf::ArcStr | Leaf::ArrayString(_) | Leaf::PathBuf | Leaf::CowStr => {
                    let s = dv.s();
                    out.put(&(s.len() as u64).to_le_bytes(), Role::Len);
                    out.put(s.as_bytes(), Role::StrData);
                }
                Leaf::Atomic(p) => out.put(&le(dv.n(), p.wire_size()), if *p == Prim::Bool { Role::Bool } else { Role::Int }),
                Leaf::Phantom => {}
                other => return Err(EncErr::NoExp(format!("private encoding of {:?}", other))),
            },
            Ty::Def(i, args) => {
                let d = &self.defs[*i];
                match &d.kind {
                    DefKind::Struct { fields, .. } => self.enc_fields(fields, args, v, dv.l(), out)?,
                    DefKind::Enum { variants } => {
                        let (vi, vals) = dv.v();
                        let var = &variants[vi as usize];
                        if v < var.vfrom || var.vto.map_or(false, |t| v > t) {
                            return Err(EncErr::WriterRejects(format!(
                                "variant {} not present at version {}",
                                var.name, v
                            )));
                        }
                        out.put(&le(vi as u128, d.discr_width()), Role::Discr);
                        self.enc_fields(&var.fields, args, v, vals, out)?;
                    }
                }
            }
            Ty::Param(_) => panic!("open type"),
        }
        Ok(())
    }

    /// smallest number of bytes any value of the type occupies on the wire at version v
    pub fn min_wire(&self, ty: &Ty, v: u32) -> usize {
        self.min_wire_d(ty, v, 0)
    }
    fn min_wire_d(&self, ty: &Ty, v: u32, depth: usize) -> usize {
        if depth > 6 {
            return 0;
        }
        let r = |t: &Ty| self.min_wire_d(t, v, depth + 1);
        match ty {
            Ty::Prim(p) => p.wire_size(),
            Ty::Str => 8,
            Ty::Unit => 0,
            Ty::Opt(_) => 1,
            Ty::Res(a, b) => 1 + r(a).min(r(b)),
            Ty::Seq(_, _) | Ty::Set(_, _) | Ty::Map(_, _, _) => 8,
            Ty::Array(a, n) => r(a) * n,
            Ty::Tuple(ts) => ts.iter().map(|t| r(t)).sum(),
            Ty::Wrap(_, a) => r(a),
            Ty::Range(a) => 2 * r(a),
            Ty::Leaf(l) => match l {
                Leaf::ArcStr | Leaf::ArrayString(_) | Leaf::PathBuf | Leaf::CowStr => 8,
                Leaf::Atomic(p) => p.wire_size(),
                Leaf::Phantom => 0,
                _ => 0,
            },
            Ty::Def(i, args) => {
                let d = &self.defs[*i];
                let fsum = |fields: &[Field]| -> usize {
                    fields
                        .iter()
                        .map(|f| match f.wire_ty(v) {
                            Some((t, _)) => r(&Self::subst(t, args)),
                            None => 0,
                        })
                        .sum()
                };
                match &d.kind {
                    DefKind::Struct { fields, .. } => fsum(fields),
                    DefKind::Enum { variants } => {
                        d.discr_width() + variants.iter().map(|va| fsum(&va.fields)).min().unwrap_or(0)
                    }
                }
            }
            Ty::Param(_) => 0,
        }
    }
}

pub struct Cur<'a> {
    pub data: &'a [u8],
    pub pos: usize,
    /// accept any non-1 byte as `false` for bools/tags (what a lenient reader does)
    pub lenient: bool,
    /// lenient mode: declared lengths that the remaining input cannot encode (declared, remaining, min_elem)
    pub huge: Vec<(u64, usize, usize)>,
}

impl<'a> Cur<'a> {
    pub fn new(data: &'a [u8]) -> Cur<'a> {
        Cur { data, pos: 0, lenient: false, huge: vec![] }
    }
    pub fn remaining(&self) -> usize {
        self.data.len() - self.pos
    }
    pub fn take(&mut self, n: usize) -> Result<&'a [u8], DecErr> {
        if self.remaining() < n {
            return Err(DecErr::Eof);
        }
        let s = &self.data[self.pos..self.pos + n];
        self.pos += n;
        Ok(s)
    }
    pub fn uint(&mut self, n: usize) -> Result<u128, DecErr> {
        let s = self.take(n)?;
        let mut b = [0u8; 16];
        b[..n].copy_from_slice(s);
        Ok(u128::from_le_bytes(b))
    }
    pub fn len_prefix(&mut self, min_elem: usize) -> Result<usize, DecErr> {
        let n = self.uint(8)? as u64;
        let rem = self.remaining();
        let too_big = if min_elem == 0 {
            n > (1 << 24)
        } else {
            (n as u128) * (min_elem as u128) > rem as u128
        };
        if too_big {
            if self.lenient && min_elem > 0 {
                // pre-screening: record the declared length and keep decoding — containers that
                // do not pre-allocate read elements until the input ends, and one of those may
                // declare an absurd length of its own
                self.huge.push((n, rem, min_elem));
                return Ok(n as usize);
            }
            return Err(DecErr::HugeLen { declared: n, remaining: rem, min_elem });
        }
        Ok(n as usize)
    }
}

impl Universe {
    /// Decode what a program with these definitions loads from data of version `v`.
    /// (Models the documented reader: fields present iff in range, removed fields skipped,
    /// absent fields defaulted, versions_as fields converted.)
    pub fn dec(&self, ty: &Ty, v: u32, c: &mut Cur) -> Result<DV, DecErr> {
        match ty {
            Ty::Prim(p) => {
                let x = c.uint(p.wire_size())?;
                match p {
                    Prim::Bool => {
                        if x > 1 && !c.lenient {
                            return Err(DecErr::Invalid(format!("bool byte {}", x)));
                        }
                        Ok(DV::N(if x == 1 { 1 } else { 0 }))
                    }
                    Prim::Char => {
                        if char::from_u32(x as u32).is_none() && !c.lenient {
                            return Err(DecErr::Invalid(format!("char {:#x}", x)));
                        }
                        Ok(DV::N(x))
                    }
                    _ => Ok(DV::N(x)),
                }
            }
            Ty::Str => self.dec_str(c),
            Ty::Unit => Ok(DV::unit()),
            Ty::Opt(a) => {
                let t = c.uint(1)?;
                if t > 1 && !c.lenient {
                    return Err(DecErr::Invalid(format!("option tag {}", t)));
                }
                if t == 1 {
                    Ok(DV::some(self.dec(a, v, c)?))
                } else {
                    Ok(DV::none())
                }
            }
            Ty::Res(a, b) => {
                let t = c.uint(1)?;
                if t > 1 && !c.lenient {
                    return Err(DecErr::Invalid(format!("result tag {}", t)));
                }
                if t == 1 {
                    Ok(DV::V(1, vec![self.dec(a, v, c)?]))
                } else {
                    Ok(DV::V(0, vec![self.dec(b, v, c)?]))
                }
            }
            Ty::Seq(_, a) | Ty::Set(_, a) => {
                let n = c.len_prefix(self.min_wire(a, v))?;
                let mut xs = Vec::with_capacity(n.min(1 << 16));
                for _ in 0..n {
                    xs.push(self.dec(a, v, c)?);
                }
                Ok(DV::L(xs))
            }
            Ty::Map(_, k, val) => {
                let n = c.len_prefix(self.min_wire(k, v) + self.min_wire(val, v))?;
                let mut xs = Vec::with_capacity(n.min(1 << 16));
                for _ in 0..n {
                    let kk = self.dec(k, v, c)?;
                    let vv = self.dec(val, v, c)?;
                    xs.push(DV::L(vec![kk, vv]));
                }
                Ok(DV::L(xs))
            }
            Ty::Array(a, n) => {
                let mut xs = Vec::new();
                for _ in 0..*n {
                    xs.push(self.dec(a, v, c)?);
                }
                Ok(DV::L(xs))
            }
            Ty::Tuple(ts) => {
                let mut xs = Vec::new();
                for t in ts {
                    xs.push(self.dec(t, v, c)?);
                }
                Ok(DV::L(xs))
            }
            Ty::Wrap(_, a) => self.dec(a, v, c),
            Ty::Range(a) => Ok(DV::L(vec![self.dec(a, v, c)?, self.dec(a, v, c)?])),
            Ty::Leaf(l) => match l {
                Leaf::ArcStr | Leaf::ArrayString(_) | Leaf::PathBuf | Leaf::CowStr => self.dec_str(c),
                Leaf::Atomic(p) => {
                    let x = c.uint(p.wire_size())?;
                    if *p == Prim::Bool {
                        Ok(DV::N(if x == 1 { 1 } else { 0 }))
                    } else {
                        Ok(DV::N(x))
                    }
                }
                Leaf::Phantom => Ok(DV::unit()),
                // pre-screening only (lenient cursor): the bit containers declare their storage size
                // (u64 bits, u64 bytes with the top bit as a format flag, raw bytes); the value is not
                // modelled, only "does the input declare more storage than it carries"
                Leaf::BitVec | Leaf::BitSet | Leaf::BitVec08 | Leaf::BitSet08 if c.lenient => {
                    let _bits = c.uint(8)?;
                    let nb = c.uint(8)? as u64;
                    let n = nb & !(1 << 63);
                    let rem = c.remaining();
                    if n as u128 > rem as u128 {
                        // new format: the library computes n * 8 (capacity in bits)
                        return Err(DecErr::HugeLen { declared: n, remaining: rem, min_elem: if nb >> 63 == 1 { 8 } else { 1 } });
                    }
                    c.take(n as usize)?;
                    Ok(DV::unit())
                }
                // pre-screening only: how many bytes the other leaf types with private encodings
                // consume (sizes as used by the schema mirror / wire normal form), so that declared
                // lengths behind them are still found
                Leaf::Duration | Leaf::SystemTime if c.lenient => c.take(16).map(|_| DV::unit()),
                Leaf::DateTimeUtc if c.lenient => c.take(8).map(|_| DV::unit()),
                Leaf::Canary1 if c.lenient => c.take(4).map(|_| DV::unit()),
                Leaf::IpAddr if c.lenient => match c.uint(1)? {
                    0 => c.take(4).map(|_| DV::unit()),
                    1 => c.take(16).map(|_| DV::unit()),
                    t => Err(DecErr::Invalid(format!("ip tag {}", t))),
                },
                Leaf::SocketAddr if c.lenient => match c.uint(1)? {
                    0 => c.take(2 + 4).map(|_| DV::unit()),
                    1 => c.take(2 + 16 + 4 + 4).map(|_| DV::unit()),
                    t => Err(DecErr::Invalid(format!("socket addr tag {}", t))),
                },
                Leaf::IoError if c.lenient => {
                    c.take(2)?;
                    let n = c.len_prefix(1)?;
                    c.take(n).map(|_| DV::unit())
                }
                other => Err(DecErr::NoExp(format!("private encoding of {:?}", other))),
            },
            Ty::Def(i, args) => {
                let d = &self.defs[*i];
                match &d.kind {
                    DefKind::Struct { fields, .. } => Ok(DV::L(self.dec_fields(fields, args, v, c)?)),
                    DefKind::Enum { variants } => {
                        let vi = c.uint(d.discr_width())? as usize;
                        if vi >= variants.len() {
                            return Err(DecErr::Invalid(format!("discriminant {} of {}", vi, d.name)));
                        }
                        Ok(DV::V(vi as u32, self.dec_fields(&variants[vi].fields, args, v, c)?))
                    }
                }
            }
            Ty::Param(_) => panic!("open type"),
        }
    }

    fn dec_str(&self, c: &mut Cur) -> Result<DV, DecErr> {
        let n = c.len_prefix(1)?;
        let b = c.take(n)?;
        match std::str::from_utf8(b) {
            Ok(s) => Ok(DV::S(s.to_string())),
            Err(e) => Err(DecErr::Invalid(format!("utf8: {}", e))),
        }
    }

    fn dec_fields(&self, fields: &[Field], args: &[Ty], v: u32, c: &mut Cur) -> Result<Vec<DV>, DecErr> {
        let mut out = Vec::new();
        for f in fields {
            let fty = Self::subst(&f.ty, args);
            match f.wire_ty(v) {
                Some((_, None)) => {
                    let x = self.dec(&fty, v, c)?;
                    if f.is_live() {
                        out.push(x);
                    }
                }
                Some((old, Some(va))) => {
                    let x = self.dec(old, v, c)?;
                    if f.is_live() {
                        out.push(apply_conv(old, &fty, &va.conv, &x)?);
                    }
                }
                None => {
                    if f.is_live() {
                        out.push(self.field_default(f, args));
                    }
                }
            }
        }
        Ok(out)
    }

    /// decode and require that all input is consumed
    pub fn dec_all(&self, ty: &Ty, v: u32, data: &[u8]) -> Result<DV, DecErr> {
        let mut c = Cur::new(data);
        let x = self.dec(ty, v, &mut c)?;
        if c.remaining() != 0 {
            return Err(DecErr::Trailing(c.remaining()));
        }
        Ok(x)
    }

    /// What the same program loads back after saving `dv` at version v: composition of the
    /// reference writer and the reference reader.
    pub fn reload_expect(&self, ty: &Ty, v: u32, dv: &DV) -> Result<DV, String> {
        let a = self.enc(ty, v, dv).map_err(|e| format!("{:?}", e))?;
        self.dec_all(ty, v, &a.bytes).map_err(|e| format!("{:?}", e))
    }
}

fn sign_extend(x: u128, p: Prim) -> i128 {
    if p.is_signed() {
        let sh = 128 - p.bits();
        ((x << sh) as i128) >> sh
    } else {
        x as i128
    }
}

/// Semantics of the conversions typegen emits for savefile_versions_as.
pub fn apply_conv(old: &Ty, new: &Ty, conv: &Conv, x: &DV) -> Result<DV, DecErr> {
    match (conv, old, new) {
        (Conv::From, Ty::Prim(po), Ty::Prim(pn)) => {
            if *pn == Prim::F64 && *po == Prim::F32 {
                let f = f32::from_bits(x.n() as u32) as f64;
                return Ok(DV::N(f.to_bits() as u128));
            }
            // lossless integer widening (From impls exist only for those)
            let v = sign_extend(x.n(), *po);
            Ok(DV::N((v as u128) & pn.mask()))
        }
        (Conv::From, Ty::Prim(Prim::Char), Ty::Str) => {
            Ok(DV::S(char::from_u32(x.n() as u32).unwrap().to_string()))
        }
        (Conv::From, a, Ty::Opt(b)) if a == &**b => Ok(DV::some(x.clone())),
        (Conv::FnToString(_), Ty::Prim(po), Ty::Str) => {
            let v = sign_extend(x.n(), *po);
            Ok(DV::S(if po.is_signed() { format!("{}", v) } else { format!("{}", x.n()) }))
        }
        (Conv::FnCastAdd(_, k), Ty::Prim(po), Ty::Prim(pn)) => {
            let v = sign_extend(x.n(), *po);
            Ok(DV::N(((v as u128).wrapping_add(*k as u128)) & pn.mask()))
        }
        _ => Err(DecErr::NoExp(format!("conversion {:?} {:?}->{:?}", conv, old, new))),
    }
}

impl Universe {
    /// Structural model of "save at version v, load again with the same program": fields that
    /// are not on the wire at v (out of range, ignored) come back as their default; everything
    /// else is unchanged. Needs no byte-level knowledge, so it also covers leaf types whose
    /// encoding the documentation does not describe. Err if the documented writer refuses
    /// (Removed<T> in range, variant absent) or the case is outside the model (versions_as).
    pub fn after_reload(&self, ty: &Ty, v: u32, dv: &DV) -> Result<DV, EncErr> {
        let rec = |t: &Ty, x: &DV| self.after_reload(t, v, x);
        Ok(match (ty, dv) {
            (Ty::Prim(_), _) | (Ty::Str, _) | (Ty::Unit, _) | (Ty::Leaf(_), _) => dv.clone(),
            (Ty::Opt(a), DV::V(i, xs)) => DV::V(*i, xs.iter().map(|x| rec(a, x)).collect::<Result<_, _>>()?),
            (Ty::Res(a, b), DV::V(i, xs)) => {
                let t = if *i == 1 { a } else { b };
                DV::V(*i, xs.iter().map(|x| rec(t, x)).collect::<Result<_, _>>()?)
            }
            (Ty::Seq(_, a), DV::L(xs)) | (Ty::Set(_, a), DV::L(xs)) | (Ty::Array(a, _), DV::L(xs)) | (Ty::Range(a), DV::L(xs)) => {
                DV::L(xs.iter().map(|x| rec(a, x)).collect::<Result<_, _>>()?)
            }
            (Ty::Map(kind, a, b), DV::L(xs)) => {
                let pairs: Vec<DV> = xs
                    .iter()
                    .map(|kv| {
                        let kv = kv.l();
                        Ok(DV::L(vec![rec(a, &kv[0])?, rec(b, &kv[1])?]))
                    })
                    .collect::<Result<_, EncErr>>()?;
                if *kind == MapKind::Hash {
                    // keys that become equal at this version (fields absent there take their default):
                    // which entry survives depends on the hash map's iteration order when saving
                    for (i, p) in pairs.iter().enumerate() {
                        let (k, val) = (self.canon(a, &p.l()[0]), &p.l()[1]);
                        if pairs[..i].iter().any(|q| self.canon(a, &q.l()[0]) == k && &q.l()[1] != val) {
                            return Err(EncErr::NoExp("hash map keys collide at this version: the surviving value is unspecified".into()));
                        }
                    }
                }
                DV::L(pairs)
            }
            (Ty::Tuple(ts), DV::L(xs)) => DV::L(ts.iter().zip(xs).map(|(t, x)| rec(t, x)).collect::<Result<_, _>>()?),
            (Ty::Wrap(_, a), _) => rec(a, dv)?,
            (Ty::Def(i, args), _) => {
                let d = &self.defs[*i];
                let do_fields = |fields: &[Field], vals: &[DV]| -> Result<Vec<DV>, EncErr> {
                    let mut out = vec![];
                    let mut li = 0;
                    for f in fields {
                        let fty = Self::subst(&f.ty, args);
                        if !f.is_live() {
                            if f.on_wire(v) && f.removed == RemovedKind::Removed {
                                return Err(EncErr::WriterRejects(format!("Removed field {} at version {}", f.name, v)));
                            }
                            if f.on_wire(v) && f.removed == RemovedKind::AbiRemoved {
                                // the constructed value is written at this version: it must itself be
                                // something the documented writer can produce there (it may contain a
                                // definition with a Removed<T> or type-changed field)
                                let val = match &f.abi_ctor {
                                    Some((_, dv)) => dv.clone(),
                                    None => self.default_dv(&fty),
                                };
                                self.after_reload(&fty, v, &val)?;
                            }
                            continue;
                        }
                        let val = &vals[li];
                        li += 1;
                        match f.wire_ty(v) {
                            Some((_, None)) => out.push(self.after_reload(&fty, v, val)?),
                            Some((_, Some(_))) => return Err(EncErr::NoExp("versions_as range when writing".into())),
                            None => out.push(self.field_default(f, args)),
                        }
                    }
                    Ok(out)
                };
                match (&d.kind, dv) {
                    (DefKind::Struct { fields, .. }, DV::L(xs)) => DV::L(do_fields(fields, xs)?),
                    (DefKind::Enum { variants }, DV::V(vi, xs)) => {
                        let var = &variants[*vi as usize];
                        if v < var.vfrom || var.vto.map_or(false, |t| v > t) {
                            return Err(EncErr::WriterRejects(format!("variant {} not present at version {}", var.name, v)));
                        }
                        DV::V(*vi, do_fields(&var.fields, xs)?)
                    }
                    _ => panic!("after_reload: shape mismatch"),
                }
            }
            _ => panic!("after_reload: shape mismatch {:?} / {:?}", ty, dv),
        })
    }

    /// does any def reachable from the type carry version attributes or ignored fields
    pub fn has_version_dependence(&self, ty: &Ty) -> bool {
        self.any_ty(ty, &|t| match t {
            Ty::Def(i, _) => {
                let d = &self.defs[*i];
                d.fields_all().iter().any(|f| f.has_version_attr() || f.ignore || !f.versions_as.is_empty())
                    || matches!(&d.kind, DefKind::Enum { variants } if variants.iter().any(|v| v.vfrom != 0 || v.vto.is_some()))
            }
            _ => false,
        })
    }
}
