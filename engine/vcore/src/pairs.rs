//! Generator of ordered type pairs (saved S, loaded L) for the schema gate (C05):
//!  - single-edit mutants of a definition (different wire layout),
//!  - twins that differ only in what the documentation calls insignificant (names, wrappers,
//!    sequence container kinds),
//!  - plus a type-level normal form of the wire layout used as oracle for arbitrary pairs.

use crate::gen::{Gen, Root};
use crate::ir::*;
use serde::{Deserialize, Serialize};
use std::collections::BTreeMap;

#[derive(Clone, Debug, PartialEq, Eq, Serialize, Deserialize)]
pub struct PairSpec {
    /// indices into PairBatch::roots
    pub a: usize,
    pub b: usize,
    /// "rename", "wrapper.<kind>", "seqkind", "mut.<kind>"
    pub rel: String,
    /// true: documentation says the difference is insignificant -> load must succeed
    pub must_accept: bool,
}

#[derive(Clone, Debug, PartialEq, Eq, Serialize, Deserialize)]
pub struct PairBatch {
    pub seed: u64,
    pub uni: Universe,
    pub roots: Vec<Root>,
    pub pairs: Vec<PairSpec>,
    pub stats: BTreeMap<String, usize>,
}

/// Type-level normal form of the wire layout at a version. Products are flattened (a struct is
/// its fields in order); names of structs and fields are dropped, names of variants kept.
#[derive(Clone, Debug, PartialEq, Eq, Hash, PartialOrd, Ord)]
pub enum WNorm {
    Prim(Prim),
    Str,
    Seq(Box<WNorm>),
    Opt(Box<WNorm>),
    Result(Box<WNorm>, Box<WNorm>),
    Product(Vec<WNorm>),
    /// discriminant width, then per variant present at the version: (name, wire discriminant =
    /// position in the declaration, fields)
    Enum(usize, Vec<(String, usize, Vec<WNorm>)>),
    Opaque(&'static str),
    Recursive,
}

fn flat(items: Vec<WNorm>) -> Vec<WNorm> {
    let mut out = vec![];
    for i in items {
        match i {
            WNorm::Product(inner) => out.extend(flat(inner)),
            o => out.push(o),
        }
    }
    out
}
fn product(items: Vec<WNorm>) -> WNorm {
    let mut f = flat(items);
    if f.len() == 1 {
        f.pop().unwrap()
    } else {
        WNorm::Product(f)
    }
}

impl Universe {
    pub fn wnorm(&self, ty: &Ty, v: u32) -> WNorm {
        self.wnorm_d(ty, v, 0)
    }
    fn wnorm_d(&self, ty: &Ty, v: u32, depth: usize) -> WNorm {
        // `depth` counts expansions of recursive definitions only (other types are finite)
        let r = |t: &Ty| self.wnorm_d(t, v, depth);
        match ty {
            Ty::Prim(Prim::Usize) => WNorm::Prim(Prim::U64),
            Ty::Prim(Prim::Isize) => WNorm::Prim(Prim::I64),
            Ty::Prim(p) => WNorm::Prim(*p),
            Ty::Str => WNorm::Str,
            Ty::Unit => WNorm::Product(vec![]),
            Ty::Opt(a) => WNorm::Opt(Box::new(r(a))),
            Ty::Res(a, b) => WNorm::Result(Box::new(r(a)), Box::new(r(b))),
            Ty::Seq(_, a) | Ty::Set(_, a) => WNorm::Seq(Box::new(r(a))),
            Ty::Map(_, k, val) => WNorm::Seq(Box::new(WNorm::Product(flat(vec![r(k), r(val)])))),
            Ty::Array(a, n) => product((0..*n).map(|_| r(a)).collect()),
            Ty::Tuple(ts) => product(ts.iter().map(|t| r(t)).collect()),
            Ty::Wrap(_, a) => r(a),
            Ty::Range(a) => product(vec![r(a), r(a)]),
            Ty::Leaf(l) => match l {
                Leaf::ArcStr | Leaf::ArrayString(_) | Leaf::PathBuf | Leaf::CowStr => WNorm::Str,
                Leaf::Atomic(Prim::Usize) => WNorm::Prim(Prim::U64),
                Leaf::Atomic(Prim::Isize) => WNorm::Prim(Prim::I64),
                Leaf::Atomic(p) => WNorm::Prim(*p),
                Leaf::Phantom => WNorm::Product(vec![]),
                Leaf::Duration | Leaf::SystemTime => WNorm::Prim(Prim::U128),
                Leaf::IpAddr => WNorm::Opaque("ipaddr"),
                Leaf::SocketAddr => WNorm::Opaque("socketaddr"),
                Leaf::BitVec | Leaf::BitSet | Leaf::BitVec08 | Leaf::BitSet08 => WNorm::Opaque("bits"),
                Leaf::Canary1 => WNorm::Opaque("canary1"),
                Leaf::IoError => WNorm::Opaque("ioerror"),
                Leaf::DateTimeUtc => WNorm::Opaque("utctimestamp"),
            },
            Ty::Def(i, args) => {
                let d = &self.defs[*i];
                if d.recursive && depth > 3 {
                    return WNorm::Recursive;
                }
                let nd = if d.recursive { depth + 1 } else { depth };
                let fs = |fields: &[Field]| -> Vec<WNorm> {
                    fields.iter().filter_map(|f| f.wire_ty(v).map(|(t, _)| self.wnorm_d(&Self::subst(t, args), v, nd))).collect()
                };
                match &d.kind {
                    DefKind::Struct { fields, .. } => product(fs(fields)),
                    DefKind::Enum { variants } => WNorm::Enum(
                        d.discr_width(),
                        variants
                            .iter()
                            .enumerate()
                            .filter(|(_, x)| v >= x.vfrom && x.vto.map_or(true, |t| v <= t))
                            .map(|(k, x)| (x.name.clone(), k, flat(fs(&x.fields))))
                            .collect(),
                    ),
                }
            }
            Ty::Param(_) => WNorm::Recursive,
        }
    }
}

fn plain_field_positions(d: &Def) -> Vec<(usize, usize)> {
    // (variant index or usize::MAX for struct, field index) of fields without attributes
    let ok = |f: &Field| f.is_live() && !f.has_version_attr() && !f.ignore && f.versions_as.is_empty();
    match &d.kind {
        DefKind::Struct { fields, .. } => (0..fields.len()).filter(|i| ok(&fields[*i])).map(|i| (usize::MAX, i)).collect(),
        DefKind::Enum { variants } => {
            let mut v = vec![];
            for (vi, var) in variants.iter().enumerate() {
                for (fi, f) in var.fields.iter().enumerate() {
                    if ok(f) {
                        v.push((vi, fi));
                    }
                }
            }
            v
        }
    }
}
fn field_mut(d: &mut Def, pos: (usize, usize)) -> &mut Field {
    match &mut d.kind {
        DefKind::Struct { fields, .. } => &mut fields[pos.1],
        DefKind::Enum { variants } => &mut variants[pos.0].fields[pos.1],
    }
}

/// Apply one wire-altering edit to a copy of def `di`; returns the label or None if not applicable.
fn mutate(g: &mut Gen, d: &mut Def) -> Option<String> {
    let pos = plain_field_positions(d);
    let kinds = 11;
    for _ in 0..12 {
        match g.rng.below(kinds) {
            0 => {
                // primitive kind
                let c: Vec<(usize, usize)> = pos.iter().cloned().filter(|p| matches!(field_mut(d, *p).ty, Ty::Prim(_))).collect();
                if c.is_empty() {
                    continue;
                }
                let p = *g.rng.pick(&c);
                let f = field_mut(d, p);
                let old = if let Ty::Prim(x) = f.ty { x } else { unreachable!() };
                let cands = [Prim::U8, Prim::I8, Prim::U16, Prim::I16, Prim::U32, Prim::I32, Prim::U64, Prim::I64, Prim::F32, Prim::F64, Prim::Bool, Prim::Char];
                let same_norm = |a: Prim, b: Prim| a == b;
                let mut new = old;
                for _ in 0..20 {
                    new = *g.rng.pick(&cands);
                    if !same_norm(new, old) && !(old == Prim::Usize && new == Prim::U64) && !(old == Prim::Isize && new == Prim::I64) {
                        break;
                    }
                }
                if new == old {
                    continue;
                }
                f.ty = Ty::Prim(new);
                return Some("prim_kind".into());
            }
            1 => {
                let c: Vec<(usize, usize)> = pos.iter().cloned().filter(|p| matches!(field_mut(d, *p).ty, Ty::Array(_, _))).collect();
                if c.is_empty() {
                    continue;
                }
                let p = *g.rng.pick(&c);
                let f = field_mut(d, p);
                if let Ty::Array(a, n) = f.ty.clone() {
                    // unit arrays have no wire footprint whatever their length
                    if matches!(*a, Ty::Unit) || matches!(*a, Ty::Leaf(Leaf::Phantom)) {
                        continue;
                    }
                    f.ty = Ty::Array(a, if n >= 32 { n - 1 } else { n + 1 });
                    return Some("array_len".into());
                }
            }
            2 => {
                // add a field (struct only, named/tuple)
                if let DefKind::Struct { shape, fields } = &mut d.kind {
                    if *shape == Shape::Unit || d.repr == Repr::Transparent {
                        continue;
                    }
                    let name = if *shape == Shape::Tuple { format!("{}", fields.len()) } else { format!("fx{}", fields.len()) };
                    fields.push(Field::plain(&name, Ty::Prim(Prim::U8)));
                    return Some("field_added".into());
                }
            }
            3 => {
                // remove the last plain field of a struct with >= 2 fields
                if let DefKind::Struct { shape, fields } = &mut d.kind {
                    if fields.len() < 2 || d.repr == Repr::Transparent {
                        continue;
                    }
                    let last = fields.last().unwrap();
                    if !(last.is_live() && !last.has_version_attr() && !last.ignore) {
                        continue;
                    }
                    // removing a zero-width field does not change the wire
                    if matches!(last.ty, Ty::Unit | Ty::Leaf(Leaf::Phantom)) || matches!(&last.ty, Ty::Array(_, 0)) {
                        continue;
                    }
                    let _ = shape;
                    fields.pop();
                    return Some("field_removed".into());
                }
            }
            4 => {
                // reorder two adjacent plain fields of different type
                if let DefKind::Struct { shape, fields } = &mut d.kind {
                    let ok = |f: &Field| f.is_live() && !f.has_version_attr() && !f.ignore && f.versions_as.is_empty() && !f.introspect_key;
                    let c: Vec<usize> = (0..fields.len().saturating_sub(1)).filter(|i| ok(&fields[*i]) && ok(&fields[*i + 1]) && fields[*i].ty != fields[*i + 1].ty).collect();
                    if c.is_empty() {
                        continue;
                    }
                    let i = *g.rng.pick(&c);
                    let (a, b) = (fields[i].ty.clone(), fields[i + 1].ty.clone());
                    fields[i].ty = b;
                    fields[i + 1].ty = a;
                    let _ = shape;
                    return Some("fields_reordered".into());
                }
            }
            5 => {
                // discriminant width
                if let DefKind::Enum { variants } = &d.kind {
                    if variants.len() > 200 || variants.iter().any(|v| v.discr.is_some()) {
                        continue;
                    }
                    let new = match d.repr {
                        Repr::Int(p) if p.wire_size() == 1 => Repr::Int(Prim::U16),
                        Repr::Int(_) => Repr::Int(Prim::U8),
                        Repr::Rust | Repr::C | Repr::CAlign(_) | Repr::Align(_) => Repr::Int(Prim::U32),
                        Repr::CInt(p) if p.wire_size() == 1 => Repr::CInt(Prim::U16),
                        Repr::CInt(_) => Repr::CInt(Prim::U8),
                        Repr::Transparent => continue,
                    };
                    // repr(C, uN) needs at least one data variant; repr(uN) is fine for all
                    d.repr = new;
                    return Some("discriminant_width".into());
                }
            }
            6 => {
                if let DefKind::Enum { variants } = &mut d.kind {
                    if variants.is_empty() {
                        continue;
                    }
                    let i = g.rng.below(variants.len());
                    variants[i].name = format!("{}x", variants[i].name);
                    return Some("variant_renamed".into());
                }
            }
            7 => {
                if let DefKind::Enum { variants } = &mut d.kind {
                    if variants.len() < 2 || variants.iter().any(|v| v.discr.is_some() || v.vfrom != 0) {
                        continue;
                    }
                    let i = g.rng.below(variants.len() - 1);
                    variants.swap(i, i + 1);
                    return Some("variants_reordered".into());
                }
            }
            8 => {
                // a variant added in a later version, declared *before* older variants: at earlier
                // versions the names agree but the wire discriminants (declaration index) do not
                let ver = g.uni.version;
                if let DefKind::Enum { variants } = &mut d.kind {
                    if ver < 1 || variants.is_empty() || variants.len() > 200 || variants.iter().any(|v| v.discr.is_some()) {
                        continue;
                    }
                    let at = g.rng.below(variants.len());
                    let from = g.rng.range(1, ver as usize) as u32;
                    variants.insert(at, VariantDef { name: "VIns".into(), shape: Shape::Unit, fields: vec![], discr: None, vfrom: from, vto: None });
                    return Some("variant_inserted_versioned".into());
                }
            }
            9 => {
                // a field-less variant gains a payload / a variant with fields loses it (names, order and
                // discriminants stay the same)
                if let DefKind::Enum { variants } = &mut d.kind {
                    if variants.is_empty() || variants.iter().any(|v| v.discr.is_some()) {
                        continue;
                    }
                    let i = g.rng.below(variants.len());
                    if variants[i].fields.is_empty() {
                        variants[i].shape = Shape::Tuple;
                        variants[i].fields = vec![Field::plain("0", Ty::Prim(Prim::U32))];
                        return Some("variant_payload_added".into());
                    } else if variants[i].fields.iter().all(|f| f.is_live() && !f.has_version_attr())
                        // repr(C, uN) is only legal with at least one data-carrying variant
                        && !(matches!(d.repr, Repr::CInt(_)) && variants.iter().filter(|v| !v.fields.is_empty()).count() < 2)
                    {
                        variants[i].shape = Shape::Unit;
                        variants[i].fields.clear();
                        return Some("variant_payload_removed".into());
                    }
                }
            }
            _ => {
                // wrap a field in Option / Vec
                if pos.is_empty() {
                    continue;
                }
                let p = *g.rng.pick(&pos);
                let opt = g.rng.chance(1, 2);
                let f = field_mut(d, p);
                if f.introspect_key {
                    continue;
                }
                let old = f.ty.clone();
                f.ty = if opt { Ty::Opt(Box::new(old)) } else { Ty::Seq(SeqKind::Vec, Box::new(old)) };
                return Some(if opt { "wrap_option".into() } else { "wrap_vec".into() });
            }
        }
    }
    None
}

fn rename_twin(d: &Def, newname: &str) -> Def {
    let mut t = d.clone();
    t.name = newname.to_string();
    let ren = |fields: &mut Vec<Field>, shape: Shape| {
        if shape == Shape::Named {
            for f in fields.iter_mut() {
                f.name = format!("r_{}", f.name);
            }
        }
    };
    match &mut t.kind {
        DefKind::Struct { shape, fields } => ren(fields, *shape),
        DefKind::Enum { variants } => {
            for v in variants.iter_mut() {
                let s = v.shape;
                ren(&mut v.fields, s);
            }
        }
    }
    t
}

pub fn gen_pair_batch(seed: u64, n_base: usize) -> PairBatch {
    let mut g = Gen::new(seed, "pairs", 2, "B");
    let mut stats: BTreeMap<String, usize> = BTreeMap::new();
    // fixed bases: field-less enums with explicit values under repr(C) and repr(u8)
    for (nm, repr) in [("CEnum", Repr::C), ("U8Enum", Repr::Int(Prim::U8))] {
        g.push(Def {
            name: format!("B{}", nm),
            repr,
            kind: DefKind::Enum {
                variants: vec![
                    VariantDef { name: "A".into(), shape: Shape::Unit, fields: vec![], discr: Some(1), vfrom: 0, vto: None },
                    VariantDef { name: "B".into(), shape: Shape::Unit, fields: vec![], discr: Some(2), vfrom: 0, vto: None },
                ],
            },
            params: 0,
            recursive: false,
        });
    }
    // fixed bases for the ignored-field twins: a repr(C, u8) enum with a two-field named variant and a
    // repr(C) struct (definitions whose schema records field offsets)
    g.push(Def {
        name: "BCIEnum".into(),
        repr: Repr::CInt(Prim::U8),
        kind: DefKind::Enum {
            variants: vec![
                VariantDef { name: "V0".into(), shape: Shape::Named, fields: vec![Field::plain("f0", Ty::Prim(Prim::U32)), Field::plain("f1", Ty::Prim(Prim::U16))], discr: None, vfrom: 0, vto: None },
                VariantDef { name: "V1".into(), shape: Shape::Unit, fields: vec![], discr: None, vfrom: 0, vto: None },
            ],
        },
        params: 0,
        recursive: false,
    });
    g.push(Def {
        name: "BCIStruct".into(),
        repr: Repr::C,
        kind: DefKind::Struct { shape: Shape::Named, fields: vec![Field::plain("f0", Ty::Prim(Prim::U32)), Field::plain("f1", Ty::Prim(Prim::U16)), Field::plain("f2", Ty::Prim(Prim::U8))] },
        params: 0,
        recursive: false,
    });
    // base definitions: same mix as the data batches (without generics/recursion)
    while g.uni.defs.len() < n_base {
        match g.rng.weighted(&[20, 12, 12, 30, 16, 6]) {
            0 => g.gen_packed_struct(),
            1 => g.gen_unit_enum(),
            2 => g.gen_data_enum(false),
            3 => g.gen_general_struct(),
            4 => g.gen_data_enum(true),
            _ => g.gen_transparent(),
        };
    }
    let mut roots: Vec<Root> = (0..n_base).map(|i| Root { ty: Ty::Def(i, vec![]), class: "base".into() }).collect();
    let mut pairs = vec![];
    // twins
    for i in 0..n_base {
        let base = g.uni.defs[i].clone();
        // rename twin (insignificant difference)
        if g.rng.chance(1, 2) {
            let t = rename_twin(&base, &format!("{}Ren", base.name));
            let ti = g.push(t);
            roots.push(Root { ty: Ty::Def(ti, vec![]), class: "twin.rename".into() });
            pairs.push(PairSpec { a: i, b: roots.len() - 1, rel: "rename".into(), must_accept: true });
            *stats.entry("pair.rename".into()).or_insert(0) += 1;
        }
        // mutants (different wire layout)
        for k in 0..2 {
            let mut m = base.clone();
            m.name = format!("{}Mut{}", base.name, k);
            if let Some(label) = mutate(&mut g, &mut m) {
                // a transparent struct must keep exactly one non-zero-sized field: drop the repr if we wrapped etc.
                let mi = g.push(m);
                roots.push(Root { ty: Ty::Def(mi, vec![]), class: format!("twin.mut.{}", label) });
                pairs.push(PairSpec { a: i, b: roots.len() - 1, rel: format!("mut.{}", label), must_accept: false });
                *stats.entry(format!("pair.mut.{}", label)).or_insert(0) += 1;
                // the same edit one level down: an outer struct holding the base / the mutant
                if g.rng.chance(1, 3) {
                    let mk_outer = |name: String, inner: usize| Def {
                        name,
                        repr: Repr::Rust,
                        kind: DefKind::Struct {
                            shape: Shape::Named,
                            fields: vec![Field::plain("a", Ty::Prim(Prim::U16)), Field::plain("b", Ty::Seq(SeqKind::Vec, Box::new(Ty::Def(inner, vec![])))), Field::plain("c", Ty::Str)],
                        },
                        params: 0,
                        recursive: false,
                    };
                    let oa = g.push(mk_outer(format!("{}OutA{}", base.name, k), i));
                    let ob = g.push(mk_outer(format!("{}OutB{}", base.name, k), mi));
                    roots.push(Root { ty: Ty::Def(oa, vec![]), class: "nested.base".into() });
                    roots.push(Root { ty: Ty::Def(ob, vec![]), class: "nested.mut".into() });
                    pairs.push(PairSpec { a: roots.len() - 2, b: roots.len() - 1, rel: format!("mut.nested.{}", label), must_accept: false });
                    *stats.entry("pair.mut.nested".into()).or_insert(0) += 1;
                }
            }
        }
        // same wire format, different memory representation: an ignored field (in memory, never on the
        // wire) at different positions (C11: must not be passed by reference; C05: loads to the same value)
        {
            let place = |d: &Def, at_end: bool, name: String| -> Option<Def> {
                let mut t = d.clone();
                t.name = name;
                let ins = |fields: &mut Vec<Field>| -> bool {
                    if fields.len() < 2 || fields.iter().any(|f| f.ignore) {
                        return false;
                    }
                    let mut ig = Field::plain("ign", Ty::Prim(Prim::U32));
                    ig.ignore = true;
                    let at = if at_end { fields.len() } else { 1 };
                    fields.insert(at, ig);
                    true
                };
                let ok = match &mut t.kind {
                    DefKind::Struct { shape: Shape::Named, fields } if t.repr != Repr::Transparent => ins(fields),
                    DefKind::Enum { variants } => match variants.iter_mut().find(|v| v.shape == Shape::Named && v.fields.len() >= 2) {
                        Some(v) => ins(&mut v.fields),
                        None => false,
                    },
                    _ => false,
                };
                if ok { Some(t) } else { None }
            };
            // (only where the declaration order fixes the layout: repr(Rust) may well place the two the same way)
            let order_fixed = matches!(base.repr, Repr::C | Repr::CInt(_) | Repr::CAlign(_));
            if order_fixed && (base.name.starts_with("BCI") || g.rng.chance(2, 3)) {
                if let (Some(ta), Some(tb)) = (place(&base, false, format!("{}IgA", base.name)), place(&base, true, format!("{}IgB", base.name))) {
                    let ia = g.push(ta);
                    let ib = g.push(tb);
                    roots.push(Root { ty: Ty::Def(ia, vec![]), class: "twin.ignored_field_position".into() });
                    roots.push(Root { ty: Ty::Def(ib, vec![]), class: "twin.ignored_field_position".into() });
                    pairs.push(PairSpec { a: roots.len() - 2, b: roots.len() - 1, rel: "layout.ignored_field_position".into(), must_accept: false });
                    *stats.entry("pair.layout.ignored_field_position".into()).or_insert(0) += 1;
                }
            }
        }
        // same wire format, different memory representation: a field-less enum with an explicit
        // integer repr whose explicit discriminant values differ (C11: must not be passed by reference)
        let int_or_c = match base.repr {
            Repr::Int(p) => Some(p),
            Repr::C => Some(Prim::I32),
            _ => None,
        };
        if let (DefKind::Enum { variants }, Some(p)) = (&base.kind, int_or_c) {
            if variants.iter().all(|v| v.fields.is_empty()) && variants.len() <= 20 && !variants.is_empty() {
                let mut t = base.clone();
                t.name = format!("{}Dv", base.name);
                if let DefKind::Enum { variants: tv } = &mut t.kind {
                    let shift: i64 = if p.is_signed() { -3 } else { 3 };
                    let mut prev: i64 = -1;
                    for v in tv.iter_mut() {
                        let cur = v.discr.unwrap_or(prev + 1);
                        prev = cur;
                        v.discr = Some(cur + shift);
                    }
                }
                let ti = g.push(t);
                roots.push(Root { ty: Ty::Def(ti, vec![]), class: "twin.discriminant_values".into() });
                pairs.push(PairSpec { a: i, b: roots.len() - 1, rel: "layout.discriminant_values".into(), must_accept: true });
                *stats.entry("pair.layout.discriminant_values".into()).or_insert(0) += 1;
            }
        }
        // wrappers: Box/Rc/Arc/RefCell/Mutex/RwLock<T> vs T
        if g.rng.chance(1, 3) {
            let k = *g.rng.pick(&[WrapKind::Box, WrapKind::Rc, WrapKind::Arc, WrapKind::RefCell, WrapKind::StdMutex, WrapKind::PlMutex, WrapKind::PlRwLock]);
            roots.push(Root { ty: Ty::Wrap(k, Box::new(Ty::Def(i, vec![]))), class: "wrapper".into() });
            pairs.push(PairSpec { a: i, b: roots.len() - 1, rel: format!("wrapper.{:?}", k), must_accept: true });
            pairs.push(PairSpec { a: roots.len() - 1, b: i, rel: format!("wrapper.{:?}", k), must_accept: true });
            *stats.entry("pair.wrapper".into()).or_insert(0) += 2;
        }
        // sequence container kinds among themselves
        if g.rng.chance(1, 3) {
            let caps = g.uni.caps(&Ty::Def(i, vec![]));
            let mut kinds: Vec<Ty> = vec![
                Ty::Seq(SeqKind::Vec, Box::new(Ty::Def(i, vec![]))),
                Ty::Seq(SeqKind::VecDeque, Box::new(Ty::Def(i, vec![]))),
                Ty::Seq(SeqKind::BoxSlice, Box::new(Ty::Def(i, vec![]))),
                Ty::Seq(SeqKind::SmallVec(2), Box::new(Ty::Def(i, vec![]))),
            ];
            if caps.key {
                kinds.push(Ty::Seq(SeqKind::BinaryHeap, Box::new(Ty::Def(i, vec![]))));
                kinds.push(Ty::Set(SetKind::BTree, Box::new(Ty::Def(i, vec![]))));
                kinds.push(Ty::Set(SetKind::Hash, Box::new(Ty::Def(i, vec![]))));
            }
            let a = g.rng.below(kinds.len());
            let mut b = g.rng.below(kinds.len());
            if a == b {
                b = (b + 1) % kinds.len();
            }
            roots.push(Root { ty: kinds[a].clone(), class: "seqkind".into() });
            roots.push(Root { ty: kinds[b].clone(), class: "seqkind".into() });
            pairs.push(PairSpec { a: roots.len() - 2, b: roots.len() - 1, rel: "seqkind".into(), must_accept: true });
            *stats.entry("pair.seqkind".into()).or_insert(0) += 1;
        }
    }
    // a few catalogue types for unrelated pairs
    g.allow_cell = true;
    for _ in 0..n_base / 2 {
        let t = g.gen_ty(2, Caps::default());
        roots.push(Root { ty: t, class: "catalogue".into() });
    }
    for p in [Prim::U8, Prim::I8, Prim::U32, Prim::I32, Prim::U64, Prim::Usize, Prim::F32, Prim::Bool, Prim::Char] {
        roots.push(Root { ty: Ty::Prim(p), class: "prim".into() });
    }
    for l in [Leaf::IpAddr, Leaf::SocketAddr, Leaf::Duration, Leaf::SystemTime, Leaf::BitVec, Leaf::BitSet, Leaf::DateTimeUtc, Leaf::Canary1] {
        roots.push(Root { ty: Ty::Leaf(l), class: "leaf".into() });
    }
    roots.push(Root { ty: Ty::Str, class: "prim".into() });
    roots.push(Root { ty: Ty::Seq(SeqKind::Vec, Box::new(Ty::Prim(Prim::U8))), class: "prim".into() });
    for (k, v) in g.stats.iter() {
        stats.insert(k.clone(), *v);
    }
    PairBatch { seed, uni: g.uni, roots, pairs, stats }
}

pub fn emit_pairs(b: &PairBatch, json_file: &str) -> String {
    use std::fmt::Write;
    let mut out = String::from("// GENERATED by typegen — do not edit\n#![allow(warnings)]\npub mod pairs {\n");
    out.push_str(crate::emit::MODULE_PRELUDE);
    for i in 0..b.uni.defs.len() {
        crate::emit::emit_def(&b.uni, i, &mut out);
    }
    writeln!(out, "    pub const IR_JSON: &str = include_str!(\"{}\");", json_file).unwrap();
    out.push_str("    pub fn roots() -> Vec<Box<dyn hcore::ops::TypeOps>> {\n        vec![\n");
    for r in &b.roots {
        writeln!(out, "            hcore::ops::mk::<{}>(),", b.uni.rust_ty(&r.ty, "")).unwrap();
    }
    out.push_str("        ]\n    }\n}\n");
    out
}
