//! Savefile-independent mirror of the schema tree, its persisted grammar (formats 0, 1, 2 —
//! DESIGN.md appendix B) and a generic reader driven only by a schema.

use crate::dv::DV;
use crate::enc::Cur;
use crate::ir::*;
use serde::{Deserialize, Serialize};

#[derive(Clone, Debug, PartialEq, Eq, Hash, Serialize, Deserialize)]
pub struct RField {
    pub name: String,
    pub value: RSchema,
    pub offset: Option<u64>,
}
#[derive(Clone, Debug, PartialEq, Eq, Hash, Serialize, Deserialize)]
pub struct RVariant {
    pub name: String,
    pub discr: u8,
    pub fields: Vec<RField>,
}
#[derive(Clone, Debug, PartialEq, Eq, Hash, Serialize, Deserialize)]
pub struct RMethod {
    pub name: String,
    pub ret: RSchema,
    /// 100 &self, 101 &mut self, 102 Pin<&mut Self>
    pub receiver: u8,
    pub is_async: bool,
    pub args: Vec<RSchema>,
}
#[derive(Clone, Debug, PartialEq, Eq, Hash, Serialize, Deserialize)]
pub struct RTraitDef {
    pub name: String,
    pub sync: bool,
    pub send: bool,
    pub methods: Vec<RMethod>,
}
/// primitive kinds with their persisted tag numbers
#[derive(Clone, Copy, Debug, PartialEq, Eq, Hash, Serialize, Deserialize)]
pub enum RPrim {
    I8 = 1,
    U8 = 2,
    I16 = 3,
    U16 = 4,
    I32 = 5,
    U32 = 6,
    I64 = 7,
    U64 = 8,
    Str = 9,
    F32 = 10,
    F64 = 11,
    Bool = 12,
    Canary1 = 13,
    I128 = 14,
    U128 = 15,
    Char = 16,
}
impl RPrim {
    pub fn from_tag(t: u8) -> Option<RPrim> {
        use RPrim::*;
        Some(match t {
            1 => I8,
            2 => U8,
            3 => I16,
            4 => U16,
            5 => I32,
            6 => U32,
            7 => I64,
            8 => U64,
            9 => Str,
            10 => F32,
            11 => F64,
            12 => Bool,
            13 => Canary1,
            14 => I128,
            15 => U128,
            16 => Char,
            _ => return None,
        })
    }
    pub fn width(self) -> Option<usize> {
        use RPrim::*;
        Some(match self {
            I8 | U8 | Bool => 1,
            I16 | U16 => 2,
            I32 | U32 | F32 | Canary1 | Char => 4,
            I64 | U64 | F64 => 8,
            I128 | U128 => 16,
            Str => return None,
        })
    }
}

#[derive(Clone, Debug, PartialEq, Eq, Hash, Serialize, Deserialize)]
pub enum RSchema {
    Struct { name: String, fields: Vec<RField>, size: Option<u64>, align: Option<u64> },
    Enum { name: String, variants: Vec<RVariant>, discr_size: u8, explicit_repr: bool, size: Option<u64>, align: Option<u64> },
    /// primitive + string layout byte (only meaningful for Str)
    Prim(RPrim, u8),
    Vector(Box<RSchema>, u8),
    Undefined,
    ZeroSize,
    Option(Box<RSchema>),
    Array(u64, Box<RSchema>),
    Custom(String),
    Boxed(Box<RSchema>),
    FnClosure(bool, RTraitDef),
    Slice(Box<RSchema>),
    Str,
    Reference(Box<RSchema>),
    Trait(bool, RTraitDef),
    Recursion(u64),
    StdIoError,
    Future(RTraitDef, bool, bool, bool),
    UninitSlice,
    UtcTimestamp,
}

// ------------------------------------------------------------------------------- grammar: parse

struct P<'a> {
    c: Cur<'a>,
    f: u16,
    depth: usize,
}

type PR<T> = Result<T, String>;

impl<'a> P<'a> {
    fn u8(&mut self) -> PR<u8> {
        self.c.uint(1).map(|x| x as u8).map_err(|e| format!("{:?}", e))
    }
    fn u64(&mut self) -> PR<u64> {
        self.c.uint(8).map(|x| x as u64).map_err(|e| format!("{:?}", e))
    }
    fn boolean(&mut self) -> PR<bool> {
        Ok(self.u8()? == 1)
    }
    fn count(&mut self, min_elem: usize) -> PR<usize> {
        let n = self.u64()?;
        if (n as u128) * (min_elem as u128) > self.c.remaining() as u128 {
            return Err(format!("count {} exceeds remaining {} bytes", n, self.c.remaining()));
        }
        Ok(n as usize)
    }
    fn string(&mut self) -> PR<String> {
        let n = self.count(1)?;
        let b = self.c.take(n).map_err(|e| format!("{:?}", e))?;
        String::from_utf8(b.to_vec()).map_err(|e| format!("utf8: {}", e))
    }
    fn opt_u64(&mut self) -> PR<Option<u64>> {
        if self.boolean()? {
            Ok(Some(self.u64()?))
        } else {
            Ok(None)
        }
    }
    fn field(&mut self) -> PR<RField> {
        let name = self.string()?;
        let value = self.schema()?;
        let offset = if self.f >= 1 { self.opt_u64()? } else { None };
        Ok(RField { name, value, offset })
    }
    fn traitdef(&mut self) -> PR<RTraitDef> {
        let full = self.string()?;
        let mut it = full.split('+');
        let name = it.next().unwrap_or("").to_string();
        let mut sync = false;
        let mut send = false;
        for seg in it {
            match seg {
                "Sync" => sync = true,
                "Send" => send = true,
                other => return Err(format!("trait name segment {:?}", other)),
            }
        }
        let n = self.count(1)?;
        let mut methods = vec![];
        for _ in 0..n {
            let name = self.string()?;
            let ret = self.schema()?;
            let (receiver, is_async) = if self.f >= 2 {
                let r = self.u8()?;
                if !(100..=102).contains(&r) {
                    return Err(format!("receiver tag {}", r));
                }
                (r, self.boolean()?)
            } else {
                (100, false)
            };
            let na = self.count(1)?;
            let mut args = vec![];
            for _ in 0..na {
                args.push(self.schema()?);
            }
            methods.push(RMethod { name, ret, receiver, is_async, args });
        }
        Ok(RTraitDef { name, sync, send, methods })
    }
    fn schema(&mut self) -> PR<RSchema> {
        self.depth += 1;
        if self.depth > 200 {
            return Err("nesting too deep".into());
        }
        let tag = self.u8()?;
        let r = match tag {
            1 => {
                let name = self.string()?;
                let n = self.count(1)?;
                let (size, align) = if self.f >= 1 { (self.opt_u64()?, self.opt_u64()?) } else { (None, None) };
                let mut fields = vec![];
                for _ in 0..n {
                    fields.push(self.field()?);
                }
                RSchema::Struct { name, fields, size, align }
            }
            2 => {
                let name = self.string()?;
                let n = self.count(1)?;
                let mut variants = vec![];
                for _ in 0..n {
                    let vname = self.string()?;
                    let discr = self.u8()?;
                    let nf = self.count(1)?;
                    let mut fields = vec![];
                    for _ in 0..nf {
                        fields.push(self.field()?);
                    }
                    variants.push(RVariant { name: vname, discr, fields });
                }
                let (discr_size, explicit_repr, size, align) =
                    if self.f >= 1 { (self.u8()?, self.boolean()?, self.opt_u64()?, self.opt_u64()?) } else { (1, false, None, None) };
                RSchema::Enum { name, variants, discr_size, explicit_repr, size, align }
            }
            3 => {
                let k = self.u8()?;
                let p = RPrim::from_tag(k).ok_or_else(|| format!("primitive kind {}", k))?;
                let layout = if p == RPrim::Str && self.f >= 1 { self.u8()? } else { 0 };
                RSchema::Prim(p, layout)
            }
            4 => {
                let inner = self.schema()?;
                let layout = if self.f >= 1 { self.u8()? } else { 0 };
                RSchema::Vector(Box::new(inner), layout)
            }
            5 => RSchema::Undefined,
            6 => RSchema::ZeroSize,
            7 => RSchema::Option(Box::new(self.schema()?)),
            8 => {
                let n = self.u64()?;
                RSchema::Array(n, Box::new(self.schema()?))
            }
            9 => RSchema::Custom(self.string()?),
            10 => RSchema::Boxed(Box::new(self.schema()?)),
            11 => {
                let m = self.boolean()?;
                RSchema::FnClosure(m, self.traitdef()?)
            }
            12 => RSchema::Slice(Box::new(self.schema()?)),
            13 => RSchema::Str,
            14 => RSchema::Reference(Box::new(self.schema()?)),
            15 => {
                let m = self.boolean()?;
                RSchema::Trait(m, self.traitdef()?)
            }
            16 => RSchema::Recursion(self.u64()?),
            17 => RSchema::StdIoError,
            18 => {
                let mask = self.u8()?;
                let t = self.traitdef()?;
                RSchema::Future(t, mask & 1 != 0, mask & 2 != 0, mask & 4 != 0)
            }
            19 => RSchema::UninitSlice,
            20 => RSchema::UtcTimestamp,
            other => return Err(format!("schema node tag {}", other)),
        };
        self.depth -= 1;
        Ok(r)
    }
}

/// Parse one schema from `data` at library format version `format`; returns bytes consumed.
pub fn parse_schema(data: &[u8], format: u16) -> Result<(RSchema, usize), String> {
    let mut p = P { c: Cur::new(data), f: format, depth: 0 };
    p.c.lenient = true;
    let s = p.schema()?;
    Ok((s, p.c.pos))
}

// ------------------------------------------------------------------------------- grammar: write

fn w_str(out: &mut Vec<u8>, s: &str) {
    out.extend_from_slice(&(s.len() as u64).to_le_bytes());
    out.extend_from_slice(s.as_bytes());
}
fn w_opt(out: &mut Vec<u8>, o: Option<u64>) {
    match o {
        Some(x) => {
            out.push(1);
            out.extend_from_slice(&x.to_le_bytes());
        }
        None => out.push(0),
    }
}
fn w_field(out: &mut Vec<u8>, f: &RField, fmt: u16) {
    w_str(out, &f.name);
    write_schema_into(out, &f.value, fmt);
    if fmt >= 1 {
        w_opt(out, f.offset);
    }
}
fn w_trait(out: &mut Vec<u8>, t: &RTraitDef, fmt: u16) {
    let mut n = t.name.clone();
    if t.sync {
        n += "+Sync";
    }
    if t.send {
        n += "+Send";
    }
    w_str(out, &n);
    out.extend_from_slice(&(t.methods.len() as u64).to_le_bytes());
    for m in &t.methods {
        w_str(out, &m.name);
        write_schema_into(out, &m.ret, fmt);
        if fmt >= 2 {
            out.push(m.receiver);
            out.push(m.is_async as u8);
        }
        out.extend_from_slice(&(m.args.len() as u64).to_le_bytes());
        for a in &m.args {
            write_schema_into(out, a, fmt);
        }
    }
}

pub fn write_schema_into(out: &mut Vec<u8>, s: &RSchema, fmt: u16) {
    match s {
        RSchema::Struct { name, fields, size, align } => {
            out.push(1);
            w_str(out, name);
            out.extend_from_slice(&(fields.len() as u64).to_le_bytes());
            if fmt >= 1 {
                w_opt(out, *size);
                w_opt(out, *align);
            }
            for f in fields {
                w_field(out, f, fmt);
            }
        }
        RSchema::Enum { name, variants, discr_size, explicit_repr, size, align } => {
            out.push(2);
            w_str(out, name);
            out.extend_from_slice(&(variants.len() as u64).to_le_bytes());
            for v in variants {
                w_str(out, &v.name);
                out.push(v.discr);
                out.extend_from_slice(&(v.fields.len() as u64).to_le_bytes());
                for f in &v.fields {
                    w_field(out, f, fmt);
                }
            }
            if fmt >= 1 {
                out.push(*discr_size);
                out.push(*explicit_repr as u8);
                w_opt(out, *size);
                w_opt(out, *align);
            }
        }
        RSchema::Prim(p, layout) => {
            out.push(3);
            out.push(*p as u8);
            if *p == RPrim::Str && fmt >= 1 {
                out.push(*layout);
            }
        }
        RSchema::Vector(inner, layout) => {
            out.push(4);
            write_schema_into(out, inner, fmt);
            if fmt >= 1 {
                out.push(*layout);
            }
        }
        RSchema::Undefined => out.push(5),
        RSchema::ZeroSize => out.push(6),
        RSchema::Option(i) => {
            out.push(7);
            write_schema_into(out, i, fmt);
        }
        RSchema::Array(n, i) => {
            out.push(8);
            out.extend_from_slice(&n.to_le_bytes());
            write_schema_into(out, i, fmt);
        }
        RSchema::Custom(s) => {
            out.push(9);
            w_str(out, s);
        }
        RSchema::Boxed(i) => {
            out.push(10);
            write_schema_into(out, i, fmt);
        }
        RSchema::FnClosure(m, t) => {
            out.push(11);
            out.push(*m as u8);
            w_trait(out, t, fmt);
        }
        RSchema::Slice(i) => {
            out.push(12);
            write_schema_into(out, i, fmt);
        }
        RSchema::Str => out.push(13),
        RSchema::Reference(i) => {
            out.push(14);
            write_schema_into(out, i, fmt);
        }
        RSchema::Trait(m, t) => {
            out.push(15);
            out.push(*m as u8);
            w_trait(out, t, fmt);
        }
        RSchema::Recursion(d) => {
            out.push(16);
            out.extend_from_slice(&d.to_le_bytes());
        }
        RSchema::StdIoError => out.push(17),
        RSchema::Future(t, send, sync, unpin) => {
            out.push(18);
            out.push((*send as u8) | ((*sync as u8) << 1) | ((*unpin as u8) << 2));
            w_trait(out, t, fmt);
        }
        RSchema::UninitSlice => out.push(19),
        RSchema::UtcTimestamp => out.push(20),
    }
}

pub fn write_schema(s: &RSchema, fmt: u16) -> Vec<u8> {
    let mut out = vec![];
    write_schema_into(&mut out, s, fmt);
    out
}

impl RSchema {
    /// remove the memory-layout annotations (what a format-0 file cannot carry)
    pub fn strip_layout(&self) -> RSchema {
        let sf = |f: &RField| RField { name: f.name.clone(), value: f.value.strip_layout(), offset: None };
        let st = |t: &RTraitDef| RTraitDef {
            name: t.name.clone(),
            sync: t.sync,
            send: t.send,
            methods: t
                .methods
                .iter()
                .map(|m| RMethod { name: m.name.clone(), ret: m.ret.strip_layout(), receiver: 100, is_async: false, args: m.args.iter().map(|a| a.strip_layout()).collect() })
                .collect(),
        };
        match self {
            RSchema::Struct { name, fields, .. } => RSchema::Struct { name: name.clone(), fields: fields.iter().map(sf).collect(), size: None, align: None },
            RSchema::Enum { name, variants, .. } => RSchema::Enum {
                name: name.clone(),
                variants: variants.iter().map(|v| RVariant { name: v.name.clone(), discr: v.discr, fields: v.fields.iter().map(sf).collect() }).collect(),
                discr_size: 1,
                explicit_repr: false,
                size: None,
                align: None,
            },
            RSchema::Prim(p, _) => RSchema::Prim(*p, 0),
            RSchema::Vector(i, _) => RSchema::Vector(Box::new(i.strip_layout()), 0),
            RSchema::Option(i) => RSchema::Option(Box::new(i.strip_layout())),
            RSchema::Array(n, i) => RSchema::Array(*n, Box::new(i.strip_layout())),
            RSchema::Boxed(i) => RSchema::Boxed(Box::new(i.strip_layout())),
            RSchema::Slice(i) => RSchema::Slice(Box::new(i.strip_layout())),
            RSchema::Reference(i) => RSchema::Reference(Box::new(i.strip_layout())),
            RSchema::FnClosure(m, t) => RSchema::FnClosure(*m, st(t)),
            RSchema::Trait(m, t) => RSchema::Trait(*m, st(t)),
            RSchema::Future(t, a, b, c) => RSchema::Future(st(t), *a, *b, *c),
            other => other.clone(),
        }
    }
    pub fn node_count(&self) -> usize {
        let t = |t: &RTraitDef| t.methods.iter().map(|m| 1 + m.ret.node_count() + m.args.iter().map(|a| a.node_count()).sum::<usize>()).sum::<usize>();
        1 + match self {
            RSchema::Struct { fields, .. } => fields.iter().map(|f| f.value.node_count()).sum(),
            RSchema::Enum { variants, .. } => variants.iter().map(|v| 1 + v.fields.iter().map(|f| f.value.node_count()).sum::<usize>()).sum(),
            RSchema::Vector(i, _) | RSchema::Option(i) | RSchema::Array(_, i) | RSchema::Boxed(i) | RSchema::Slice(i) | RSchema::Reference(i) => i.node_count(),
            RSchema::FnClosure(_, d) | RSchema::Trait(_, d) | RSchema::Future(d, _, _, _) => t(d),
            _ => 0,
        }
    }
    pub fn contains_recursion(&self) -> bool {
        match self {
            RSchema::Recursion(_) => true,
            RSchema::Struct { fields, .. } => fields.iter().any(|f| f.value.contains_recursion()),
            RSchema::Enum { variants, .. } => variants.iter().any(|v| v.fields.iter().any(|f| f.value.contains_recursion())),
            RSchema::Vector(i, _) | RSchema::Option(i) | RSchema::Array(_, i) | RSchema::Boxed(i) | RSchema::Slice(i) | RSchema::Reference(i) => i.contains_recursion(),
            _ => false,
        }
    }
}

// ------------------------------------------------------------------------------- shapes

/// Structure recovered from bytes (by the schema-driven reader) or predicted from a value
/// (by the reference model).
#[derive(Clone, Debug, PartialEq, Eq, PartialOrd, Ord)]
pub enum Shape {
    /// fixed-width primitive, raw little-endian bytes
    Prim(Vec<u8>),
    Str(String),
    /// length-prefixed sequence; `unordered` only set on the model side
    Seq(Vec<Shape>, bool),
    /// product: struct / tuple / array items
    Fields(Vec<Shape>),
    /// enum variant index (position in the schema's variant list) + fields
    Variant(u32, Vec<Shape>),
    Opt(Option<Box<Shape>>),
}

impl Shape {
    /// Product nesting is not observable on the wire (a struct is its fields in order), so
    /// shapes are compared after flattening nested products; a 1-field product is its field.
    pub fn flatten(&self) -> Shape {
        match self {
            Shape::Fields(a) => {
                let mut out = vec![];
                for x in a {
                    match x.flatten() {
                        Shape::Fields(inner) => out.extend(inner),
                        o => out.push(o),
                    }
                }
                if out.len() == 1 {
                    out.pop().unwrap()
                } else {
                    Shape::Fields(out)
                }
            }
            Shape::Seq(a, u) => Shape::Seq(a.iter().map(|x| x.flatten()).collect(), *u),
            Shape::Variant(i, a) => match Shape::Fields(a.clone()).flatten() {
                Shape::Fields(inner) => Shape::Variant(*i, inner),
                o => Shape::Variant(*i, vec![o]),
            },
            Shape::Opt(Some(a)) => Shape::Opt(Some(Box::new(a.flatten()))),
            o => o.clone(),
        }
    }
    pub fn matches(model: &Shape, read: &Shape) -> bool {
        Shape::matches_flat(&model.flatten(), &read.flatten())
    }
    /// path and content of the first difference (diagnostics only)
    pub fn first_diff(model: &Shape, read: &Shape) -> String {
        fn go(m: &Shape, r: &Shape, path: &mut Vec<String>) -> Option<String> {
            if Shape::matches_flat(m, r) {
                return None;
            }
            let kids: Option<(&Vec<Shape>, &Vec<Shape>)> = match (m, r) {
                (Shape::Seq(a, false), Shape::Seq(b, _)) if a.len() == b.len() => Some((a, b)),
                (Shape::Fields(a), Shape::Fields(b)) if a.len() == b.len() => Some((a, b)),
                (Shape::Variant(i, a), Shape::Variant(j, b)) if i == j && a.len() == b.len() => Some((a, b)),
                _ => None,
            };
            if let Some((a, b)) = kids {
                for (k, (x, y)) in a.iter().zip(b).enumerate() {
                    path.push(k.to_string());
                    if let Some(d) = go(x, y, path) {
                        return Some(d);
                    }
                    path.pop();
                }
            }
            if let (Shape::Opt(Some(a)), Shape::Opt(Some(b))) = (m, r) {
                path.push("some".into());
                return go(a, b, path);
            }
            let cut = |s: String| s.chars().take(300).collect::<String>();
            Some(format!("at /{}: expected {} read {}", path.join("/"), cut(format!("{:?}", m)), cut(format!("{:?}", r))))
        }
        go(&model.flatten(), &read.flatten(), &mut vec![]).unwrap_or_default()
    }
    fn matches_flat(model: &Shape, read: &Shape) -> bool {
        match (model, read) {
            (Shape::Seq(a, unordered), Shape::Seq(b, _)) => {
                if a.len() != b.len() {
                    return false;
                }
                if *unordered {
                    // equal up to a permutation (elements may themselves contain unordered
                    // containers, so pair them up with this relation; it is an equivalence, greedy is exact)
                    let mut used = vec![false; b.len()];
                    a.iter().all(|x| match (0..b.len()).find(|j| !used[*j] && Shape::matches_flat(x, &b[*j])) {
                        Some(j) => {
                            used[j] = true;
                            true
                        }
                        None => false,
                    })
                } else {
                    a.iter().zip(b).all(|(x, y)| Shape::matches_flat(x, y))
                }
            }
            (Shape::Fields(a), Shape::Fields(b)) => a.len() == b.len() && a.iter().zip(b).all(|(x, y)| Shape::matches_flat(x, y)),
            (Shape::Variant(i, a), Shape::Variant(j, b)) => i == j && a.len() == b.len() && a.iter().zip(b).all(|(x, y)| Shape::matches_flat(x, y)),
            (Shape::Opt(None), Shape::Opt(None)) => true,
            (Shape::Opt(Some(a)), Shape::Opt(Some(b))) => Shape::matches_flat(a, b),
            (a, b) => a == b,
        }
    }
    /// order-insensitive normal form (nested unordered flags dropped, sequences below an
    /// unordered container are compared exactly)
    fn normal(&self) -> Shape {
        match self {
            Shape::Seq(a, _) => Shape::Seq(a.iter().map(|x| x.normal()).collect(), false),
            Shape::Fields(a) => Shape::Fields(a.iter().map(|x| x.normal()).collect()),
            Shape::Variant(i, a) => Shape::Variant(*i, a.iter().map(|x| x.normal()).collect()),
            Shape::Opt(Some(a)) => Shape::Opt(Some(Box::new(a.normal()))),
            o => o.clone(),
        }
    }
    pub fn has_seq_or_variant(&self) -> bool {
        match self {
            Shape::Seq(_, _) | Shape::Variant(_, _) => true,
            Shape::Fields(a) => a.iter().any(|x| x.has_seq_or_variant()),
            Shape::Opt(Some(a)) => a.has_seq_or_variant(),
            _ => false,
        }
    }
}

/// Generic reader: parse `data` using only the schema. `frames` lists the schema nodes that
/// are recursion frames (see `frame_roots`), needed only to resolve `Recursion` markers.
pub struct SchemaReader<'a> {
    /// name of the innermost struct/enum node being read when an error occurred
    pub err_at: Option<String>,
    pub frames: Vec<*const RSchema>,
    /// Substitutions for schema nodes that are *known* to misdescribe their bytes (open known
    /// findings of C12, see `KNOWN_PATCHES`): when a name is listed here and a node has exactly
    /// the misdescribing shape, the reader parses the true layout instead, so that the search
    /// continues behind the known defect. The check re-runs the reader with each used patch
    /// switched off to reproduce (and attribute) the known finding.
    pub patches: std::collections::BTreeSet<&'static str>,
    /// patches that were actually applied during this read
    pub patch_hits: std::collections::BTreeSet<&'static str>,
    stack: Vec<&'a RSchema>,
    budget: usize,
}

/// Names of the schema nodes with a known misdescription (see known_findings.jsonl, C12).
pub const KNOWN_PATCHES: [&str; 5] = ["BitVec", "BitSet", "Result", "SocketAddr", "enum_with_more_than_256_variants"];

fn is_usize_prim(s: &RSchema) -> bool {
    matches!(s, RSchema::Prim(RPrim::U64, _))
}

impl<'a> SchemaReader<'a> {
    pub fn new(frames: Vec<*const RSchema>) -> SchemaReader<'a> {
        SchemaReader { err_at: None, frames, patches: Default::default(), patch_hits: Default::default(), stack: vec![], budget: 2_000_000 }
    }
    pub fn read(&mut self, s: &'a RSchema, c: &mut Cur) -> Result<Shape, String> {
        if self.budget == 0 {
            return Err("reader budget exhausted".into());
        }
        self.budget -= 1;
        let is_frame = !matches!(s, RSchema::Recursion(_)) && self.frames.contains(&(s as *const RSchema));
        if is_frame {
            self.stack.push(s);
        }
        let r = self.read_inner(s, c);
        if is_frame {
            self.stack.pop();
        }
        if r.is_err() && self.err_at.is_none() {
            match s {
                RSchema::Struct { name, .. } => self.err_at = Some(name.clone()),
                RSchema::Enum { name, variants, .. } => {
                    self.err_at = Some(if variants.len() > 256 { "enum_with_more_than_256_variants".to_string() } else { name.clone() })
                }
                _ => {}
            }
        }
        r
    }
    fn fields(&mut self, fs: &'a [RField], c: &mut Cur) -> Result<Vec<Shape>, String> {
        let mut out = vec![];
        for f in fs {
            out.push(self.read(&f.value, c).map_err(|e| format!("{}/{}", f.name, e))?);
        }
        Ok(out)
    }
    fn read_inner(&mut self, s: &'a RSchema, c: &mut Cur) -> Result<Shape, String> {
        let eof = |e: crate::enc::DecErr| format!("{:?}", e);
        match s {
            RSchema::Struct { fields, name, .. }
                if (name == "BitVec" || name == "BitSet")
                    && self.patches.contains(name.as_str())
                    && fields.len() == 3
                    && is_usize_prim(&fields[0].value)
                    && is_usize_prim(&fields[1].value)
                    && matches!(&fields[2].value, RSchema::Vector(i, _) if matches!(**i, RSchema::Prim(RPrim::U8, _))) =>
            {
                // true layout: u64 bits, u64 (bytes | 1<<63), raw buffer without length prefix
                let save = c.pos;
                let bits = c.take(8).map_err(eof)?.to_vec();
                let nb = c.uint(8).map_err(eof)? as u64;
                if nb & (1 << 63) == 0 {
                    // legacy layout = what the schema says
                    c.pos = save;
                    return Ok(Shape::Fields(self.fields(fields, c)?));
                }
                self.patch_hits.insert(if name == "BitVec" { "BitVec" } else { "BitSet" });
                let n = (nb & !(1 << 63)) as usize;
                let buf = c.take(n).map_err(eof)?;
                Ok(Shape::Fields(vec![Shape::Prim(bits), Shape::Prim(nb.to_le_bytes().to_vec()), Shape::Seq(buf.iter().map(|b| Shape::Prim(vec![*b])).collect(), false)]))
            }
            RSchema::Struct { fields, .. } => Ok(Shape::Fields(self.fields(fields, c)?)),
            RSchema::Enum { variants, discr_size, name, .. }
                if name == "Result" && self.patches.contains("Result") && *discr_size == 1 && variants.len() == 2 && variants.iter().all(|v| v.discr == 0) =>
            {
                // true tags: 1 = Ok (first variant), 0 = Err (second variant)
                let d = c.uint(1).map_err(eof)?;
                let vi = match d {
                    1 => 0,
                    0 => 1,
                    x => return Err(format!("result tag {}", x)),
                };
                self.patch_hits.insert("Result");
                Ok(Shape::Variant(vi as u32, self.fields(&variants[vi].fields, c)?))
            }
            RSchema::Enum { variants, discr_size, name, .. }
                if name == "SocketAddr"
                    && self.patches.contains("SocketAddr")
                    && *discr_size == 1
                    && variants.len() == 2
                    && variants.iter().all(|v| v.fields.len() == 1 && matches!(v.fields[0].value, RSchema::Prim(_, _))) =>
            {
                // true layout: tag, u16 port, address, (V6: u32 flowinfo, u32 scope id)
                let d = c.uint(1).map_err(eof)? as usize;
                if d > 1 {
                    return Err(format!("socket addr tag {}", d));
                }
                self.patch_hits.insert("SocketAddr");
                let port = c.take(2).map_err(eof)?.to_vec();
                let mut fs = vec![Shape::Prim(port)];
                fs.extend(self.fields(&variants[d].fields, c)?);
                if d == 1 {
                    fs.push(Shape::Prim(c.take(4).map_err(eof)?.to_vec()));
                    fs.push(Shape::Prim(c.take(4).map_err(eof)?.to_vec()));
                }
                Ok(Shape::Variant(d as u32, fs))
            }
            RSchema::Enum { variants, discr_size, .. }
                if variants.len() > 256 && (*discr_size == 2 || *discr_size == 4) && self.patches.contains("enum_with_more_than_256_variants") =>
            {
                // true numbering: the wire discriminant is the variant index (the schema stores it in a u8)
                let d = c.uint(*discr_size as usize).map_err(eof)? as usize;
                if d >= variants.len() {
                    return Err(format!("discriminant {} of {} variants", d, variants.len()));
                }
                if d >= 256 {
                    self.patch_hits.insert("enum_with_more_than_256_variants");
                } else if (0..variants.len()).filter(|i| variants[*i].discr as usize == d).count() != 1 {
                    self.patch_hits.insert("enum_with_more_than_256_variants");
                }
                Ok(Shape::Variant(d as u32, self.fields(&variants[d].fields, c)?))
            }
            RSchema::Enum { variants, discr_size, name, .. } => {
                if ![1u8, 2, 4].contains(discr_size) {
                    return Err(format!("enum {} discriminant size {}", name, discr_size));
                }
                let d = c.uint(*discr_size as usize).map_err(eof)?;
                let cands: Vec<usize> = (0..variants.len()).filter(|i| variants[*i].discr as u128 == d).collect();
                if cands.len() != 1 {
                    return Err(format!("enum {}: wire discriminant {} matches {} variants of the schema", name, d, cands.len()));
                }
                let vi = cands[0];
                Ok(Shape::Variant(vi as u32, self.fields(&variants[vi].fields, c)?))
            }
            RSchema::Prim(RPrim::Str, _) | RSchema::Str => {
                let n = c.len_prefix(1).map_err(eof)?;
                let b = c.take(n).map_err(eof)?;
                Ok(Shape::Str(String::from_utf8(b.to_vec()).map_err(|e| format!("utf8 {}", e))?))
            }
            RSchema::Prim(p, _) => Ok(Shape::Prim(c.take(p.width().unwrap()).map_err(eof)?.to_vec())),
            RSchema::Vector(i, _) | RSchema::Slice(i) => {
                let n = c.len_prefix(0).map_err(eof)?;
                let mut out = vec![];
                for _ in 0..n {
                    out.push(self.read(i, c)?);
                }
                Ok(Shape::Seq(out, false))
            }
            RSchema::Array(n, i) => {
                if *n > 1 << 20 {
                    return Err("array too long".into());
                }
                let mut out = vec![];
                for _ in 0..*n {
                    out.push(self.read(i, c)?);
                }
                Ok(Shape::Fields(out))
            }
            RSchema::Option(i) => {
                let t = c.uint(1).map_err(eof)?;
                match t {
                    0 => Ok(Shape::Opt(None)),
                    1 => Ok(Shape::Opt(Some(Box::new(self.read(i, c)?)))),
                    x => Err(format!("option tag {}", x)),
                }
            }
            RSchema::ZeroSize => Ok(Shape::Fields(vec![])),
            RSchema::Boxed(i) | RSchema::Reference(i) => self.read(i, c),
            RSchema::Recursion(d) => {
                let d = *d as usize;
                if d == 0 || d > self.stack.len() {
                    return Err(format!("Recursion({}) with {} enclosing frames", d, self.stack.len()));
                }
                let idx = self.stack.len() - d;
                let target = self.stack[idx];
                // while reading inside the target, the open frames are those up to the target
                let saved: Vec<&'a RSchema> = self.stack.split_off(idx + 1);
                let r = self.read_inner(target, c);
                self.stack.truncate(idx + 1);
                self.stack.extend(saved);
                r
            }
            RSchema::UtcTimestamp => Ok(Shape::Prim(c.take(8).map_err(eof)?.to_vec())),
            RSchema::StdIoError => {
                let k = c.take(2).map_err(eof)?.to_vec();
                let n = c.len_prefix(1).map_err(eof)?;
                let b = c.take(n).map_err(eof)?;
                Ok(Shape::Fields(vec![Shape::Prim(k), Shape::Str(String::from_utf8_lossy(b).to_string())]))
            }
            other => Err(format!("schema node {:?} does not describe serialized data", std::mem::discriminant(other))),
        }
    }
}

impl Universe {
    /// The structure the documented format gives a value at version v (None where the
    /// documentation does not describe the encoding).
    pub fn wire_shape(&self, ty: &Ty, v: u32, dv: &DV) -> Option<Shape> {
        let prim = |p: Prim, x: &DV| Shape::Prim(x.n().to_le_bytes()[..p.wire_size()].to_vec());
        Some(match ty {
            Ty::Prim(p) => prim(*p, dv),
            Ty::Str => Shape::Str(dv.s().to_string()),
            Ty::Unit => Shape::Fields(vec![]),
            Ty::Opt(a) => {
                let (i, xs) = dv.v();
                if i == 0 {
                    Shape::Opt(None)
                } else {
                    Shape::Opt(Some(Box::new(self.wire_shape(a, v, &xs[0])?)))
                }
            }
            Ty::Res(a, b) => {
                let (i, xs) = dv.v();
                // variant list of a Result schema is [Ok, Err]
                if i == 1 {
                    Shape::Variant(0, vec![self.wire_shape(a, v, &xs[0])?])
                } else {
                    Shape::Variant(1, vec![self.wire_shape(b, v, &xs[0])?])
                }
            }
            Ty::Seq(k, a) => Shape::Seq(
                dv.l().iter().map(|x| self.wire_shape(a, v, x)).collect::<Option<_>>()?,
                matches!(k, SeqKind::BinaryHeap),
            ),
            Ty::Set(k, a) => Shape::Seq(dv.l().iter().map(|x| self.wire_shape(a, v, x)).collect::<Option<_>>()?, matches!(k, SetKind::Hash)),
            Ty::Map(k, a, b) => Shape::Seq(
                dv.l()
                    .iter()
                    .map(|kv| {
                        let kv = kv.l();
                        Some(Shape::Fields(vec![self.wire_shape(a, v, &kv[0])?, self.wire_shape(b, v, &kv[1])?]))
                    })
                    .collect::<Option<_>>()?,
                matches!(k, MapKind::Hash),
            ),
            Ty::Array(a, _) => Shape::Fields(dv.l().iter().map(|x| self.wire_shape(a, v, x)).collect::<Option<_>>()?),
            Ty::Tuple(ts) => Shape::Fields(ts.iter().zip(dv.l()).map(|(t, x)| self.wire_shape(t, v, x)).collect::<Option<_>>()?),
            Ty::Wrap(_, a) => self.wire_shape(a, v, dv)?,
            Ty::Range(a) => {
                let l = dv.l();
                Shape::Fields(vec![self.wire_shape(a, v, &l[0])?, self.wire_shape(a, v, &l[1])?])
            }
            Ty::Leaf(l) => match l {
                Leaf::ArcStr | Leaf::ArrayString(_) | Leaf::PathBuf | Leaf::CowStr => Shape::Str(dv.s().to_string()),
                Leaf::Atomic(p) => prim(*p, dv),
                Leaf::Phantom => Shape::Fields(vec![]),
                _ => return None,
            },
            Ty::Def(i, args) => {
                let d = &self.defs[*i];
                let fs = |fields: &[Field], vals: &[DV]| -> Option<Vec<Shape>> {
                    let mut out = vec![];
                    let mut li = 0;
                    for f in fields {
                        let fty = Self::subst(&f.ty, args);
                        if f.is_live() {
                            let val = &vals[li];
                            li += 1;
                            match f.wire_ty(v) {
                                Some((_, None)) => out.push(self.wire_shape(&fty, v, val)?),
                                Some((_, Some(_))) => return None,
                                None => {}
                            }
                        } else if f.on_wire(v) {
                            let val = match (&f.removed, &f.abi_ctor) {
                                (RemovedKind::AbiRemoved, Some((_, dv))) => dv.clone(),
                                (RemovedKind::AbiRemoved, None) => self.default_dv(&fty),
                                _ => return None,
                            };
                            out.push(self.wire_shape(&fty, v, &val)?);
                        }
                    }
                    Some(out)
                };
                match &d.kind {
                    DefKind::Struct { fields, .. } => Shape::Fields(fs(fields, dv.l())?),
                    DefKind::Enum { variants } => {
                        let (vi, vals) = dv.v();
                        // the schema at version v lists the variants that exist at v, in order
                        let pos = variants.iter().take(vi as usize).filter(|x| v >= x.vfrom && x.vto.map_or(true, |t| v <= t)).count();
                        Shape::Variant(pos as u32, fs(&variants[vi as usize].fields, vals)?)
                    }
                }
            }
            Ty::Param(_) => return None,
        })
    }
}

/// Schema nodes that are recursion frames, found by walking the type and its schema in
/// parallel: frames are opened by Box/Rc/Arc and for the elements of vectors, arrays, sets and
/// maps (documented at WithSchemaContext::possible_recursion).
pub fn frame_roots(u: &Universe, ty: &Ty, v: u32, s: &RSchema, out: &mut Vec<*const RSchema>, depth: usize) {
    if depth > 12 {
        return;
    }
    match (ty, s) {
        (Ty::Wrap(k, a), _) => {
            if matches!(k, WrapKind::Box | WrapKind::Rc | WrapKind::Arc) {
                out.push(s as *const RSchema);
            }
            frame_roots(u, a, v, s, out, depth + 1);
        }
        (Ty::Seq(_, a), RSchema::Vector(i, _)) | (Ty::Set(_, a), RSchema::Vector(i, _)) => {
            out.push(&**i as *const RSchema);
            frame_roots(u, a, v, i, out, depth + 1);
        }
        (Ty::Array(a, _), RSchema::Array(_, i)) => {
            out.push(&**i as *const RSchema);
            frame_roots(u, a, v, i, out, depth + 1);
        }
        (Ty::Map(_, k, val), RSchema::Vector(i, _)) => {
            if let RSchema::Struct { fields, .. } = &**i {
                if fields.len() == 2 {
                    out.push(&fields[0].value as *const RSchema);
                    out.push(&fields[1].value as *const RSchema);
                    frame_roots(u, k, v, &fields[0].value, out, depth + 1);
                    frame_roots(u, val, v, &fields[1].value, out, depth + 1);
                }
            }
        }
        (Ty::Opt(a), RSchema::Option(i)) => frame_roots(u, a, v, i, out, depth + 1),
        (Ty::Range(a), RSchema::Struct { fields, .. }) if fields.len() == 2 => {
            for f in fields {
                frame_roots(u, a, v, &f.value, out, depth + 1);
            }
        }
        (Ty::Tuple(ts), RSchema::Struct { fields, .. }) if ts.len() == fields.len() => {
            for (t, f) in ts.iter().zip(fields) {
                frame_roots(u, t, v, &f.value, out, depth + 1);
            }
        }
        (Ty::Res(a, b), RSchema::Enum { variants, .. }) if variants.len() == 2 => {
            if variants[0].fields.len() == 1 && variants[1].fields.len() == 1 {
                frame_roots(u, a, v, &variants[0].fields[0].value, out, depth + 1);
                frame_roots(u, b, v, &variants[1].fields[0].value, out, depth + 1);
            }
        }
        (Ty::Def(i, args), _) => {
            let d = &u.defs[*i];
            let walk = |fields: &[Field], sf: &[RField], out: &mut Vec<*const RSchema>| {
                let wire: Vec<&Field> = fields.iter().filter(|f| f.wire_ty(v).is_some()).collect();
                if wire.len() == sf.len() {
                    for (f, s) in wire.iter().zip(sf) {
                        frame_roots(u, &Universe::subst(&f.ty, args), v, &s.value, out, depth + 1);
                    }
                }
            };
            match (&d.kind, s) {
                (DefKind::Struct { fields, .. }, RSchema::Struct { fields: sf, .. }) => walk(fields, sf, out),
                (DefKind::Enum { variants }, RSchema::Enum { variants: sv, .. }) => {
                    let present: Vec<&VariantDef> = variants.iter().filter(|x| v >= x.vfrom && x.vto.map_or(true, |t| v <= t)).collect();
                    if present.len() == sv.len() {
                        for (a, b) in present.iter().zip(sv) {
                            walk(&a.fields, &b.fields, out);
                        }
                    }
                }
                _ => {}
            }
        }
        _ => {}
    }
}
