//! Intermediate representation of generated type definitions ("programs" quantifier).
//! The IR is the replay format for definitions, the input of the Rust emitter, and the
//! input of the reference model. It never refers to savefile itself.

use serde::{Deserialize, Serialize};

#[derive(Clone, Copy, Debug, PartialEq, Eq, Hash, PartialOrd, Ord, Serialize, Deserialize)]
pub enum Prim {
    U8,
    I8,
    U16,
    I16,
    U32,
    I32,
    U64,
    I64,
    U128,
    I128,
    Usize,
    Isize,
    F32,
    F64,
    Bool,
    Char,
}

pub const ALL_PRIMS: [Prim; 16] = [
    Prim::U8,
    Prim::I8,
    Prim::U16,
    Prim::I16,
    Prim::U32,
    Prim::I32,
    Prim::U64,
    Prim::I64,
    Prim::U128,
    Prim::I128,
    Prim::Usize,
    Prim::Isize,
    Prim::F32,
    Prim::F64,
    Prim::Bool,
    Prim::Char,
];

impl Prim {
    pub fn rust(self) -> &'static str {
        match self {
            Prim::U8 => "u8",
            Prim::I8 => "i8",
            Prim::U16 => "u16",
            Prim::I16 => "i16",
            Prim::U32 => "u32",
            Prim::I32 => "i32",
            Prim::U64 => "u64",
            Prim::I64 => "i64",
            Prim::U128 => "u128",
            Prim::I128 => "i128",
            Prim::Usize => "usize",
            Prim::Isize => "isize",
            Prim::F32 => "f32",
            Prim::F64 => "f64",
            Prim::Bool => "bool",
            Prim::Char => "char",
        }
    }
    /// Size on the wire (documented: fixed width little endian, usize/isize as 64 bit).
    pub fn wire_size(self) -> usize {
        match self {
            Prim::U8 | Prim::I8 | Prim::Bool => 1,
            Prim::U16 | Prim::I16 => 2,
            Prim::U32 | Prim::I32 | Prim::F32 | Prim::Char => 4,
            Prim::U64 | Prim::I64 | Prim::F64 | Prim::Usize | Prim::Isize => 8,
            Prim::U128 | Prim::I128 => 16,
        }
    }
    pub fn is_float(self) -> bool {
        matches!(self, Prim::F32 | Prim::F64)
    }
    pub fn is_signed(self) -> bool {
        matches!(self, Prim::I8 | Prim::I16 | Prim::I32 | Prim::I64 | Prim::I128 | Prim::Isize)
    }
    pub fn is_int(self) -> bool {
        !self.is_float() && !matches!(self, Prim::Bool | Prim::Char)
    }
    pub fn bits(self) -> u32 {
        (self.wire_size() * 8) as u32
    }
    /// mask of value bits as stored in DV::N
    pub fn mask(self) -> u128 {
        if self.bits() == 128 {
            u128::MAX
        } else {
            (1u128 << self.bits()) - 1
        }
    }
}

#[derive(Clone, Copy, Debug, PartialEq, Eq, Hash, PartialOrd, Ord, Serialize, Deserialize)]
pub enum SeqKind {
    Vec,
    VecDeque,
    BinaryHeap,
    BoxSlice,
    ArcSlice,
    SmallVec(usize),
    ArrayVec(usize),
}
#[derive(Clone, Copy, Debug, PartialEq, Eq, Hash, PartialOrd, Ord, Serialize, Deserialize)]
pub enum SetKind {
    Hash,
    BTree,
    Index,
}
#[derive(Clone, Copy, Debug, PartialEq, Eq, Hash, PartialOrd, Ord, Serialize, Deserialize)]
pub enum MapKind {
    Hash,
    BTree,
    Index,
}
#[derive(Clone, Copy, Debug, PartialEq, Eq, Hash, PartialOrd, Ord, Serialize, Deserialize)]
pub enum WrapKind {
    Box,
    Rc,
    Arc,
    Cell,
    RefCell,
    StdMutex,
    PlMutex,
    PlRwLock,
}
/// Leaf types whose encoding is private to the library (not described by the documented
/// core grammar) or that are plain strings/atoms.
#[derive(Clone, Copy, Debug, PartialEq, Eq, Hash, PartialOrd, Ord, Serialize, Deserialize)]
pub enum Leaf {
    ArcStr,
    ArrayString(usize),
    PathBuf,
    CowStr,
    Duration,
    SystemTime,
    IpAddr,
    SocketAddr,
    BitVec,
    BitSet,
    BitVec08,
    BitSet08,
    Atomic(Prim),
    Phantom,
    Canary1,
    IoError,
    DateTimeUtc,
}

#[derive(Clone, Debug, PartialEq, Eq, Hash, PartialOrd, Ord, Serialize, Deserialize)]
pub enum Ty {
    Prim(Prim),
    Str,
    Unit,
    Opt(Box<Ty>),
    Res(Box<Ty>, Box<Ty>),
    Seq(SeqKind, Box<Ty>),
    Set(SetKind, Box<Ty>),
    Map(MapKind, Box<Ty>, Box<Ty>),
    Array(Box<Ty>, usize),
    Tuple(Vec<Ty>),
    Wrap(WrapKind, Box<Ty>),
    Range(Box<Ty>),
    Leaf(Leaf),
    /// reference to a generated definition (index into Universe::defs) with generic arguments
    Def(usize, Vec<Ty>),
    /// generic parameter of the enclosing definition
    Param(usize),
}

#[derive(Clone, Copy, Debug, PartialEq, Eq, Hash, Serialize, Deserialize)]
pub enum RemovedKind {
    No,
    Removed,
    AbiRemoved,
}

/// How a `savefile_versions_as` conversion maps the old wire value to the new field value.
#[derive(Clone, Debug, PartialEq, Eq, Hash, Serialize, Deserialize)]
pub enum Conv {
    /// no function named: `<NewTy>::from(old)` (documented: From conversions are automatic)
    From,
    /// named function `fn name(old: Old) -> New { old.to_string() }` (integers -> String)
    FnToString(String),
    /// named function: widen/cast then wrapping-add k
    FnCastAdd(String, u64),
}

#[derive(Clone, Debug, PartialEq, Eq, Hash, Serialize, Deserialize)]
pub struct VersionsAs {
    pub from: u32,
    pub to: u32,
    /// the type on the wire in versions from..=to; must render as a single identifier
    pub ty: Ty,
    pub conv: Conv,
}

#[derive(Clone, Debug, PartialEq, Eq, Hash, Serialize, Deserialize)]
pub enum DefaultKind {
    /// `Default::default()`
    Trait,
    /// `#[savefile_default_val="text"]`
    Val(String),
    /// `#[savefile_default_fn="name"]`, function emitted returning the DV below
    Fn(String),
}

#[derive(Clone, Debug, PartialEq, Eq, Hash, Serialize, Deserialize)]
pub struct Field {
    pub name: String,
    pub ty: Ty,
    pub vfrom: u32,
    pub vto: Option<u32>,
    pub removed: RemovedKind,
    pub default: DefaultKind,
    /// value the default attribute evaluates to (only for Val/Fn)
    pub default_dv: Option<crate::dv::DV>,
    pub ignore: bool,
    pub versions_as: Vec<VersionsAs>,
    pub introspect_ignore: bool,
    pub introspect_key: bool,
    /// custom constructor for AbiRemoved<T, Ctor>: name of an emitted type + the value it builds
    pub abi_ctor: Option<(String, crate::dv::DV)>,
}

impl Field {
    pub fn plain(name: &str, ty: Ty) -> Field {
        Field {
            name: name.to_string(),
            ty,
            vfrom: 0,
            vto: None,
            removed: RemovedKind::No,
            default: DefaultKind::Trait,
            default_dv: None,
            ignore: false,
            versions_as: vec![],
            introspect_ignore: false,
            introspect_key: false,
            abi_ctor: None,
        }
    }
    pub fn has_version_attr(&self) -> bool {
        self.vfrom != 0 || self.vto.is_some()
    }
    /// is this field present in the serialized form at data version v (as its own type)
    pub fn on_wire(&self, v: u32) -> bool {
        !self.ignore && v >= self.vfrom && self.vto.map_or(true, |t| v <= t)
    }
    /// wire type at version v (own type, or versions_as type), None if absent
    pub fn wire_ty(&self, v: u32) -> Option<(&Ty, Option<&VersionsAs>)> {
        if self.ignore {
            return None;
        }
        for va in &self.versions_as {
            if v >= va.from && v <= va.to {
                return Some((&va.ty, Some(va)));
            }
        }
        if self.on_wire(v) {
            Some((&self.ty, None))
        } else {
            None
        }
    }
    /// does the field hold a value in memory (i.e. is part of the DV of the struct)
    pub fn is_live(&self) -> bool {
        self.removed == RemovedKind::No
    }
}

#[derive(Clone, Copy, Debug, PartialEq, Eq, Hash, Serialize, Deserialize)]
pub enum Shape {
    Named,
    Tuple,
    Unit,
}

#[derive(Clone, Copy, Debug, PartialEq, Eq, Hash, Serialize, Deserialize)]
pub enum Repr {
    Rust,
    C,
    Int(Prim),
    CInt(Prim),
    Transparent,
    /// #[repr(C, align(N))]
    CAlign(u32),
    /// #[repr(align(N))]
    Align(u32),
}

impl Repr {
    pub fn attr(self) -> String {
        match self {
            Repr::Rust => String::new(),
            Repr::C => "#[repr(C)]".into(),
            Repr::Int(p) => format!("#[repr({})]", p.rust()),
            Repr::CInt(p) => format!("#[repr(C, {})]", p.rust()),
            Repr::Transparent => "#[repr(transparent)]".into(),
            Repr::CAlign(n) => format!("#[repr(C, align({}))]", n),
            Repr::Align(n) => format!("#[repr(align({}))]", n),
        }
    }
}

#[derive(Clone, Debug, PartialEq, Eq, Hash, Serialize, Deserialize)]
pub struct VariantDef {
    pub name: String,
    pub shape: Shape,
    pub fields: Vec<Field>,
    pub discr: Option<i64>,
    pub vfrom: u32,
    pub vto: Option<u32>,
}

#[derive(Clone, Debug, PartialEq, Eq, Hash, Serialize, Deserialize)]
pub enum DefKind {
    Struct { shape: Shape, fields: Vec<Field> },
    Enum { variants: Vec<VariantDef> },
}

#[derive(Clone, Debug, PartialEq, Eq, Hash, Serialize, Deserialize)]
pub struct Def {
    pub name: String,
    pub repr: Repr,
    pub kind: DefKind,
    /// number of generic type parameters (named T0, T1, ..)
    pub params: usize,
    /// the def refers to itself through Option<Box<Self>> / Vec<Self> (recursive)
    pub recursive: bool,
}

/// One "program": a set of definitions at one global data version.
#[derive(Clone, Debug, PartialEq, Eq, Serialize, Deserialize)]
pub struct Universe {
    /// the program's current data version (what it passes to save/load)
    pub version: u32,
    pub defs: Vec<Def>,
    /// rust module path prefix of the emitted items, e.g. "d" or "h3::v1"
    pub module: String,
    /// evolution histories: the capabilities (Ord/Hash, Copy, Default) of a definition may
    /// change from version to version, so other types must not rely on them
    #[serde(default)]
    pub defs_have_no_caps: bool,
}

#[derive(Clone, Copy, Debug, Default, PartialEq, Eq)]
pub struct Caps {
    pub key: bool,  // Eq + Hash + Ord
    pub copy: bool, // Copy
    pub default: bool,
}

impl Caps {
    pub fn all() -> Caps {
        Caps { key: true, copy: true, default: true }
    }
    pub fn and(self, o: Caps) -> Caps {
        Caps { key: self.key && o.key, copy: self.copy && o.copy, default: self.default && o.default }
    }
}

impl Universe {
    pub fn def(&self, i: usize) -> &Def {
        &self.defs[i]
    }

    pub fn subst(ty: &Ty, args: &[Ty]) -> Ty {
        match ty {
            Ty::Param(i) => args[*i].clone(),
            Ty::Prim(_) | Ty::Str | Ty::Unit | Ty::Leaf(_) => ty.clone(),
            Ty::Opt(a) => Ty::Opt(Box::new(Self::subst(a, args))),
            Ty::Res(a, b) => Ty::Res(Box::new(Self::subst(a, args)), Box::new(Self::subst(b, args))),
            Ty::Seq(k, a) => Ty::Seq(*k, Box::new(Self::subst(a, args))),
            Ty::Set(k, a) => Ty::Set(*k, Box::new(Self::subst(a, args))),
            Ty::Map(k, a, b) => Ty::Map(*k, Box::new(Self::subst(a, args)), Box::new(Self::subst(b, args))),
            Ty::Array(a, n) => Ty::Array(Box::new(Self::subst(a, args)), *n),
            Ty::Tuple(v) => Ty::Tuple(v.iter().map(|t| Self::subst(t, args)).collect()),
            Ty::Wrap(k, a) => Ty::Wrap(*k, Box::new(Self::subst(a, args))),
            Ty::Range(a) => Ty::Range(Box::new(Self::subst(a, args))),
            Ty::Def(i, a) => Ty::Def(*i, a.iter().map(|t| Self::subst(t, args)).collect()),
        }
    }

    /// Capabilities of a (closed) type. `depth` guards recursion through recursive defs.
    pub fn caps(&self, ty: &Ty) -> Caps {
        self.caps_d(ty, 0)
    }
    /// capabilities of a definition itself (decides which traits the emitter derives for it)
    pub fn def_own_caps(&self, idx: usize, args: Vec<Ty>) -> Caps {
        self.caps_x(&Ty::Def(idx, args), 0, true)
    }
    fn caps_d(&self, ty: &Ty, depth: usize) -> Caps {
        self.caps_x(ty, depth, false)
    }
    fn caps_x(&self, ty: &Ty, depth: usize, own: bool) -> Caps {
        let no = Caps::default();
        match ty {
            Ty::Prim(p) => Caps { key: !p.is_float(), copy: true, default: true },
            Ty::Str => Caps { key: true, copy: false, default: true },
            Ty::Unit => Caps::all(),
            Ty::Opt(a) => {
                let c = self.caps_d(a, depth);
                Caps { key: c.key, copy: c.copy, default: true }
            }
            Ty::Res(a, b) => {
                let c = self.caps_d(a, depth).and(self.caps_d(b, depth));
                Caps { key: c.key, copy: c.copy, default: false }
            }
            Ty::Seq(k, a) => {
                let c = self.caps_d(a, depth);
                match k {
                    SeqKind::Vec | SeqKind::VecDeque => Caps { key: c.key, copy: false, default: true },
                    SeqKind::BinaryHeap => Caps { key: false, copy: false, default: true },
                    SeqKind::BoxSlice => Caps { key: c.key, copy: false, default: true },
                    SeqKind::ArcSlice => Caps { key: c.key, copy: false, default: false },
                    SeqKind::SmallVec(_) => Caps { key: c.key, copy: false, default: true },
                    SeqKind::ArrayVec(_) => Caps { key: c.key, copy: false, default: true },
                }
            }
            Ty::Set(k, a) => {
                let c = self.caps_d(a, depth);
                match k {
                    SetKind::BTree => Caps { key: c.key, copy: false, default: true },
                    _ => Caps { key: false, copy: false, default: true },
                }
            }
            Ty::Map(k, a, b) => {
                let c = self.caps_d(a, depth).and(self.caps_d(b, depth));
                match k {
                    MapKind::BTree => Caps { key: c.key, copy: false, default: true },
                    _ => Caps { key: false, copy: false, default: true },
                }
            }
            Ty::Array(a, n) => {
                let c = self.caps_d(a, depth);
                Caps { key: c.key, copy: c.copy, default: c.default && *n <= 32 }
            }
            Ty::Tuple(v) => v.iter().fold(Caps::all(), |acc, t| acc.and(self.caps_d(t, depth))),
            Ty::Wrap(k, a) => {
                let c = self.caps_d(a, depth);
                match k {
                    WrapKind::Box | WrapKind::Rc | WrapKind::Arc => Caps { key: c.key, copy: false, default: c.default },
                    WrapKind::Cell | WrapKind::RefCell | WrapKind::StdMutex | WrapKind::PlMutex | WrapKind::PlRwLock => {
                        Caps { key: false, copy: false, default: c.default }
                    }
                }
            }
            Ty::Range(_) => no,
            Ty::Leaf(l) => match l {
                Leaf::ArcStr => Caps { key: true, copy: false, default: false },
                Leaf::ArrayString(_) => Caps { key: true, copy: true, default: true },
                Leaf::PathBuf => Caps { key: true, copy: false, default: true },
                Leaf::CowStr => Caps { key: true, copy: false, default: true },
                Leaf::Duration => Caps { key: true, copy: true, default: true },
                Leaf::SystemTime => Caps { key: true, copy: true, default: false },
                Leaf::IpAddr | Leaf::SocketAddr => Caps { key: true, copy: true, default: false },
                Leaf::BitVec | Leaf::BitSet | Leaf::BitVec08 | Leaf::BitSet08 => Caps { key: true, copy: false, default: true },
                Leaf::Atomic(_) => Caps { key: false, copy: false, default: true },
                Leaf::Phantom => Caps::all(),
                Leaf::Canary1 => Caps { key: false, copy: false, default: true },
                Leaf::IoError => no,
                Leaf::DateTimeUtc => Caps { key: true, copy: true, default: true },
            },
            Ty::Def(i, args) => {
                if depth > 6 || (self.defs_have_no_caps && !own) {
                    return no;
                }
                let d = &self.defs[*i];
                if d.recursive {
                    return Caps { key: false, copy: false, default: false };
                }
                let mut c = Caps::all();
                match &d.kind {
                    DefKind::Struct { fields, .. } => {
                        for f in fields {
                            if !f.is_live() {
                                continue;
                            }
                            c = c.and(self.caps_d(&Self::subst(&f.ty, args), depth + 1));
                        }
                    }
                    DefKind::Enum { variants } => {
                        for v in variants {
                            for f in &v.fields {
                                if !f.is_live() {
                                    continue;
                                }
                                c = c.and(self.caps_d(&Self::subst(&f.ty, args), depth + 1));
                            }
                        }
                        // Default only if the first variant is a unit variant (manual impl emitted)
                        if variants.is_empty() || variants[0].shape != Shape::Unit {
                            c.default = false;
                        }
                    }
                }
                // Removed<T> fields: Removed is not Hash/Ord -> no key, not Copy
                let has_removed = match &d.kind {
                    DefKind::Struct { fields, .. } => fields.iter().any(|f| !f.is_live()),
                    DefKind::Enum { variants } => variants.iter().any(|v| v.fields.iter().any(|f| !f.is_live())),
                };
                if has_removed {
                    // (Default is still available: the emitter writes a manual impl)
                    c.key = false;
                    c.copy = false;
                }
                c
            }
            Ty::Param(_) => no,
        }
    }

    /// Rust type expression, with defs qualified by `prefix` (e.g. "crate::d::").
    pub fn rust_ty(&self, ty: &Ty, prefix: &str) -> String {
        let r = |t: &Ty| self.rust_ty(t, prefix);
        match ty {
            Ty::Prim(p) => p.rust().to_string(),
            Ty::Str => "String".into(),
            Ty::Unit => "()".into(),
            Ty::Opt(a) => format!("Option<{}>", r(a)),
            Ty::Res(a, b) => format!("Result<{}, {}>", r(a), r(b)),
            Ty::Seq(k, a) => match k {
                SeqKind::Vec => format!("Vec<{}>", r(a)),
                SeqKind::VecDeque => format!("std::collections::VecDeque<{}>", r(a)),
                SeqKind::BinaryHeap => format!("std::collections::BinaryHeap<{}>", r(a)),
                SeqKind::BoxSlice => format!("Box<[{}]>", r(a)),
                SeqKind::ArcSlice => format!("std::sync::Arc<[{}]>", r(a)),
                SeqKind::SmallVec(n) => format!("smallvec::SmallVec<[{}; {}]>", r(a), n),
                SeqKind::ArrayVec(n) => format!("arrayvec::ArrayVec<{}, {}>", r(a), n),
            },
            Ty::Set(k, a) => match k {
                SetKind::Hash => format!("std::collections::HashSet<{}>", r(a)),
                SetKind::BTree => format!("std::collections::BTreeSet<{}>", r(a)),
                SetKind::Index => format!("indexmap::IndexSet<{}>", r(a)),
            },
            Ty::Map(k, a, b) => match k {
                MapKind::Hash => format!("std::collections::HashMap<{}, {}>", r(a), r(b)),
                MapKind::BTree => format!("std::collections::BTreeMap<{}, {}>", r(a), r(b)),
                MapKind::Index => format!("indexmap::IndexMap<{}, {}>", r(a), r(b)),
            },
            Ty::Array(a, n) => format!("[{}; {}]", r(a), n),
            Ty::Tuple(v) => {
                let inner: Vec<String> = v.iter().map(|t| r(t)).collect();
                if v.len() == 1 {
                    format!("({},)", inner[0])
                } else {
                    format!("({})", inner.join(", "))
                }
            }
            Ty::Wrap(k, a) => match k {
                WrapKind::Box => format!("Box<{}>", r(a)),
                WrapKind::Rc => format!("std::rc::Rc<{}>", r(a)),
                WrapKind::Arc => format!("std::sync::Arc<{}>", r(a)),
                WrapKind::Cell => format!("std::cell::Cell<{}>", r(a)),
                WrapKind::RefCell => format!("std::cell::RefCell<{}>", r(a)),
                WrapKind::StdMutex => format!("std::sync::Mutex<{}>", r(a)),
                WrapKind::PlMutex => format!("parking_lot::Mutex<{}>", r(a)),
                WrapKind::PlRwLock => format!("parking_lot::RwLock<{}>", r(a)),
            },
            Ty::Range(a) => format!("std::ops::Range<{}>", r(a)),
            Ty::Leaf(l) => match l {
                Leaf::ArcStr => "std::sync::Arc<str>".into(),
                Leaf::ArrayString(n) => format!("arrayvec::ArrayString<{}>", n),
                Leaf::PathBuf => "std::path::PathBuf".into(),
                Leaf::CowStr => "std::borrow::Cow<'static, str>".into(),
                Leaf::Duration => "std::time::Duration".into(),
                Leaf::SystemTime => "std::time::SystemTime".into(),
                Leaf::IpAddr => "std::net::IpAddr".into(),
                Leaf::SocketAddr => "std::net::SocketAddr".into(),
                Leaf::BitVec => "bit_vec::BitVec".into(),
                Leaf::BitSet => "bit_set::BitSet".into(),
                Leaf::BitVec08 => "bit_vec08::BitVec".into(),
                Leaf::BitSet08 => "bit_set08::BitSet".into(),
                Leaf::Atomic(p) => {
                    let n = match p {
                        Prim::Bool => "AtomicBool",
                        Prim::U8 => "AtomicU8",
                        Prim::I8 => "AtomicI8",
                        Prim::U16 => "AtomicU16",
                        Prim::I16 => "AtomicI16",
                        Prim::U32 => "AtomicU32",
                        Prim::I32 => "AtomicI32",
                        Prim::U64 => "AtomicU64",
                        Prim::I64 => "AtomicI64",
                        Prim::Usize => "AtomicUsize",
                        Prim::Isize => "AtomicIsize",
                        _ => panic!("no atomic for {:?}", p),
                    };
                    format!("std::sync::atomic::{}", n)
                }
                Leaf::Phantom => "std::marker::PhantomData<String>".into(),
                Leaf::Canary1 => "savefile::Canary1".into(),
                Leaf::IoError => "std::io::Error".into(),
                Leaf::DateTimeUtc => "chrono::DateTime<chrono::Utc>".into(),
            },
            Ty::Def(i, args) => {
                let d = &self.defs[*i];
                if args.is_empty() {
                    format!("{}{}", prefix, d.name)
                } else {
                    let a: Vec<String> = args.iter().map(|t| r(t)).collect();
                    format!("{}{}<{}>", prefix, d.name, a.join(", "))
                }
            }
            Ty::Param(i) => format!("T{}", i),
        }
    }

    /// All versions 0..=version
    pub fn versions(&self) -> Vec<u32> {
        (0..=self.version).collect()
    }

    /// Does the type (transitively) contain something matching `pred`
    pub fn any_ty(&self, ty: &Ty, pred: &dyn Fn(&Ty) -> bool) -> bool {
        self.any_ty_d(ty, pred, 0)
    }
    fn any_ty_d(&self, ty: &Ty, pred: &dyn Fn(&Ty) -> bool, depth: usize) -> bool {
        if pred(ty) {
            return true;
        }
        if depth > 8 {
            return false;
        }
        let r = |t: &Ty| self.any_ty_d(t, pred, depth + 1);
        match ty {
            Ty::Prim(_) | Ty::Str | Ty::Unit | Ty::Leaf(_) | Ty::Param(_) => false,
            Ty::Opt(a) | Ty::Seq(_, a) | Ty::Set(_, a) | Ty::Array(a, _) | Ty::Wrap(_, a) | Ty::Range(a) => r(a),
            Ty::Res(a, b) | Ty::Map(_, a, b) => r(a) || r(b),
            Ty::Tuple(v) => v.iter().any(|t| r(t)),
            Ty::Def(i, args) => {
                let d = &self.defs[*i];
                if d.recursive && depth > 2 {
                    return false;
                }
                let fields: Vec<&Field> = match &d.kind {
                    DefKind::Struct { fields, .. } => fields.iter().collect(),
                    DefKind::Enum { variants } => variants.iter().flat_map(|v| v.fields.iter()).collect(),
                };
                fields.iter().any(|f| {
                    r(&Self::subst(&f.ty, args)) || f.versions_as.iter().any(|va| r(&va.ty))
                })
            }
        }
    }
}

impl Def {
    pub fn fields_all(&self) -> Vec<&Field> {
        match &self.kind {
            DefKind::Struct { fields, .. } => fields.iter().collect(),
            DefKind::Enum { variants } => variants.iter().flat_map(|v| v.fields.iter()).collect(),
        }
    }
    pub fn is_enum(&self) -> bool {
        matches!(self.kind, DefKind::Enum { .. })
    }
    /// documented wire width of the discriminant
    pub fn discr_width(&self) -> usize {
        match (&self.kind, self.repr) {
            (DefKind::Enum { .. }, Repr::Int(p)) | (DefKind::Enum { .. }, Repr::CInt(p)) => p.wire_size(),
            (DefKind::Enum { variants }, _) => {
                if variants.len() <= 256 {
                    1
                } else if variants.len() <= 65536 {
                    2
                } else {
                    4
                }
            }
            _ => 0,
        }
    }
}
