//! Dynamic value tree. Values of generated concrete types are converted to/from DV by the
//! `Dyn` glue in hcore; the reference model works on (Ty, DV) pairs only.
//!
//! Encoding of Rust values as DV (interpretation is always relative to a `Ty`):
//!   ints/bool/char/floats : N(bits)   (two's complement within the declared width, float by bits)
//!   String-like           : S
//!   ()/PhantomData        : L([])
//!   Option                : V(0,[]) = None, V(1,[x]) = Some(x)
//!   Result                : V(1,[x]) = Ok(x), V(0,[e]) = Err(e)      (tags as on the wire)
//!   seq/set               : L(items)      map: L([L([k,v]),..])
//!   array/tuple/struct    : L(items / live fields in declaration order)
//!   enum                  : V(variant index, live fields)
//!   Box/Rc/Cell/...       : as content
//!   leaves                : see hcore::dynglue (Duration = L([N secs, N nanos]) ...)

use crate::ir::*;
use serde::{Deserialize, Serialize};

#[derive(Clone, Debug, PartialEq, Eq, Hash, PartialOrd, Ord, Serialize, Deserialize)]
pub enum DV {
    N(#[serde(with = "u128_str")] u128),
    S(String),
    L(Vec<DV>),
    V(u32, Vec<DV>),
}

impl DV {
    pub fn unit() -> DV {
        DV::L(vec![])
    }
    pub fn n(&self) -> u128 {
        match self {
            DV::N(x) => *x,
            o => panic!("DV: expected N, got {:?}", o),
        }
    }
    pub fn s(&self) -> &str {
        match self {
            DV::S(x) => x,
            o => panic!("DV: expected S, got {:?}", o),
        }
    }
    pub fn l(&self) -> &Vec<DV> {
        match self {
            DV::L(x) => x,
            o => panic!("DV: expected L, got {:?}", o),
        }
    }
    pub fn v(&self) -> (u32, &Vec<DV>) {
        match self {
            DV::V(i, x) => (*i, x),
            o => panic!("DV: expected V, got {:?}", o),
        }
    }
    pub fn some(x: DV) -> DV {
        DV::V(1, vec![x])
    }
    pub fn none() -> DV {
        DV::V(0, vec![])
    }
    /// short JSON-ish rendering for evidence samples
    pub fn render(&self) -> String {
        let mut s = String::new();
        self.render_into(&mut s, 0);
        s
    }
    fn render_into(&self, out: &mut String, depth: usize) {
        if out.len() > 600 {
            out.push('…');
            return;
        }
        match self {
            DV::N(x) => out.push_str(&format!("{}", x)),
            DV::S(x) => {
                let t: String = x.chars().take(40).collect();
                out.push_str(&format!("{:?}", t))
            }
            DV::L(xs) => {
                out.push('[');
                for (i, x) in xs.iter().enumerate() {
                    if i > 0 {
                        out.push(',');
                    }
                    if i >= 12 {
                        out.push_str(&format!("…+{}", xs.len() - i));
                        break;
                    }
                    x.render_into(out, depth + 1);
                }
                out.push(']');
            }
            DV::V(i, xs) => {
                out.push_str(&format!("#{}(", i));
                for (k, x) in xs.iter().enumerate() {
                    if k > 0 {
                        out.push(',');
                    }
                    x.render_into(out, depth + 1);
                }
                out.push(')');
            }
        }
    }
    pub fn leaf_count(&self) -> usize {
        match self {
            DV::N(_) | DV::S(_) => 1,
            DV::L(xs) => xs.iter().map(|x| x.leaf_count()).sum(),
            DV::V(_, xs) => 1 + xs.iter().map(|x| x.leaf_count()).sum::<usize>(),
        }
    }
}

impl Universe {
    /// live fields of a struct def / of a variant (those that are part of the DV)
    pub fn live<'a>(fields: &'a [Field]) -> Vec<&'a Field> {
        fields.iter().filter(|f| f.is_live()).collect()
    }

    /// `Default::default()` of a type as DV (None if the type has no Default)
    pub fn default_dv(&self, ty: &Ty) -> DV {
        match ty {
            Ty::Prim(_) => DV::N(0),
            Ty::Str => DV::S(String::new()),
            Ty::Unit => DV::unit(),
            Ty::Opt(_) => DV::none(),
            Ty::Res(_, _) => panic!("Result has no default"),
            Ty::Seq(_, _) | Ty::Set(_, _) | Ty::Map(_, _, _) => DV::L(vec![]),
            Ty::Array(a, n) => DV::L((0..*n).map(|_| self.default_dv(a)).collect()),
            Ty::Tuple(v) => DV::L(v.iter().map(|t| self.default_dv(t)).collect()),
            Ty::Wrap(_, a) => self.default_dv(a),
            Ty::Range(_) => panic!("no default"),
            Ty::Leaf(l) => match l {
                Leaf::ArcStr | Leaf::ArrayString(_) | Leaf::PathBuf | Leaf::CowStr => DV::S(String::new()),
                Leaf::Duration => DV::L(vec![DV::N(0), DV::N(0)]),
                Leaf::BitVec | Leaf::BitVec08 => DV::L(vec![]),
                Leaf::BitSet | Leaf::BitSet08 => DV::L(vec![]),
                Leaf::Atomic(_) => DV::N(0),
                Leaf::Phantom | Leaf::Canary1 => DV::unit(),
                Leaf::DateTimeUtc => DV::N(0),
                _ => panic!("leaf {:?} has no default", l),
            },
            Ty::Def(i, args) => {
                let d = &self.defs[*i];
                match &d.kind {
                    DefKind::Struct { fields, .. } => DV::L(
                        Self::live(fields)
                            .iter()
                            .map(|f| self.default_dv(&Self::subst(&f.ty, args)))
                            .collect(),
                    ),
                    DefKind::Enum { .. } => DV::V(0, vec![]),
                }
            }
            Ty::Param(_) => panic!("open type"),
        }
    }

    /// value a field takes when it is absent from the file being loaded
    pub fn field_default(&self, f: &Field, args: &[Ty]) -> DV {
        match &f.default {
            DefaultKind::Trait => self.default_dv(&Self::subst(&f.ty, args)),
            DefaultKind::Val(_) | DefaultKind::Fn(_) => f.default_dv.clone().expect("default_dv"),
        }
    }

    /// Canonical form: containers whose iteration order is unspecified are sorted.
    pub fn canon(&self, ty: &Ty, dv: &DV) -> DV {
        match (ty, dv) {
            (Ty::Prim(_), _) | (Ty::Str, _) | (Ty::Unit, _) | (Ty::Leaf(_), _) => dv.clone(),
            (Ty::Opt(a), DV::V(i, xs)) => DV::V(*i, xs.iter().map(|x| self.canon(a, x)).collect()),
            (Ty::Res(a, b), DV::V(i, xs)) => {
                let t = if *i == 1 { a } else { b };
                DV::V(*i, xs.iter().map(|x| self.canon(t, x)).collect())
            }
            (Ty::Seq(k, a), DV::L(xs)) => {
                let mut v: Vec<DV> = xs.iter().map(|x| self.canon(a, x)).collect();
                if matches!(k, SeqKind::BinaryHeap) {
                    v.sort();
                }
                DV::L(v)
            }
            (Ty::Set(k, a), DV::L(xs)) => {
                let mut v: Vec<DV> = xs.iter().map(|x| self.canon(a, x)).collect();
                if matches!(k, SetKind::Hash) {
                    v.sort();
                }
                DV::L(v)
            }
            (Ty::Map(k, a, b), DV::L(xs)) => {
                let mut v: Vec<DV> = xs
                    .iter()
                    .map(|kv| {
                        let kv = kv.l();
                        DV::L(vec![self.canon(a, &kv[0]), self.canon(b, &kv[1])])
                    })
                    .collect();
                if matches!(k, MapKind::Hash) {
                    v.sort();
                }
                DV::L(v)
            }
            (Ty::Array(a, _), DV::L(xs)) => DV::L(xs.iter().map(|x| self.canon(a, x)).collect()),
            (Ty::Tuple(ts), DV::L(xs)) => DV::L(ts.iter().zip(xs).map(|(t, x)| self.canon(t, x)).collect()),
            (Ty::Wrap(_, a), _) => self.canon(a, dv),
            (Ty::Range(a), DV::L(xs)) => DV::L(xs.iter().map(|x| self.canon(a, x)).collect()),
            (Ty::Def(i, args), _) => {
                let d = &self.defs[*i];
                match (&d.kind, dv) {
                    (DefKind::Struct { fields, .. }, DV::L(xs)) => DV::L(
                        Self::live(fields)
                            .iter()
                            .zip(xs)
                            .map(|(f, x)| self.canon(&Self::subst(&f.ty, args), x))
                            .collect(),
                    ),
                    (DefKind::Enum { variants }, DV::V(vi, xs)) => DV::V(
                        *vi,
                        Self::live(&variants[*vi as usize].fields)
                            .iter()
                            .zip(xs)
                            .map(|(f, x)| self.canon(&Self::subst(&f.ty, args), x))
                            .collect(),
                    ),
                    _ => panic!("canon: shape mismatch for def {} : {:?}", d.name, dv),
                }
            }
            _ => panic!("canon: shape mismatch {:?} / {:?}", ty, dv),
        }
    }

    /// Does the type contain a container with unspecified iteration order
    pub fn has_unordered(&self, ty: &Ty) -> bool {
        self.any_ty(ty, &|t| {
            matches!(
                t,
                Ty::Set(SetKind::Hash, _) | Ty::Map(MapKind::Hash, _, _) | Ty::Seq(SeqKind::BinaryHeap, _)
            )
        })
    }
}

/// u128 as decimal string (JSON numbers cannot carry 128 bits)
mod u128_str {
    use serde::{Deserialize, Deserializer, Serializer};
    pub fn serialize<S: Serializer>(x: &u128, s: S) -> Result<S::Ok, S::Error> {
        s.serialize_str(&x.to_string())
    }
    pub fn deserialize<'de, D: Deserializer<'de>>(d: D) -> Result<u128, D::Error> {
        let s = String::deserialize(d)?;
        s.parse::<u128>().map_err(serde::de::Error::custom)
    }
}
