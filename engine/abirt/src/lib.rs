//! Runtime support for the generated crate `gen_abi`: the shared recording context (event log,
//! per-thread scripts, drop ledger, schedule perturbation), the fixed callback trait `Cb` with its
//! recording implementation, and the type-erased driver traits through which the non-generic
//! check binaries use generated interfaces.

extern crate savefile;
extern crate savefile_abi;
extern crate savefile_derive;

pub use abigen::script::*;
use savefile_derive::savefile_abi_exportable;
use std::collections::{HashMap, VecDeque};
use std::future::Future;
use std::panic::{catch_unwind, AssertUnwindSafe};
use std::pin::Pin;
use std::sync::atomic::{AtomicU64, Ordering};
use std::sync::{Arc, Mutex};
use std::task::{Context, Poll, RawWaker, RawWakerVTable, Waker};
use std::thread::ThreadId;
use vcore::dv::DV;

pub mod prelude {
    pub use crate::{block_on, guarded, slice_dyn, Cb, CbImpl, Conn, ConnMode, Ctx, Driver, DropToken, ImplHandle, Script, SharedConn, YieldOnce};
    pub use abigen::script::{CallSpec, CallerScript, ImplScript, RetOut};
    pub use hcore::dynglue::Dyn;
    pub use savefile::prelude::*;
    pub use savefile::AbiRemoved;
    pub use savefile_abi::{AbiConnection, AbiExportable};
    pub use std::future::Future;
    pub use std::pin::Pin;
    pub use std::sync::atomic::{AtomicUsize, Ordering};
    pub use std::sync::Arc;
    pub use vcore::dv::DV;
}

// ---------------------------------------------------------------------------------------------
// Context

#[derive(Clone, Debug, PartialEq, Eq)]
pub struct TokenRec {
    pub label: String,
    pub drops: u32,
}

pub struct Ctx {
    events: Mutex<Vec<Ev>>,
    ledger: Mutex<Vec<TokenRec>>,
    scripts: Mutex<HashMap<ThreadId, VecDeque<ImplScript>>>,
    pcount: AtomicU64,
    /// when set, events are not recorded (C16: only results are compared)
    pub quiet: std::sync::atomic::AtomicBool,
    /// when >= 0: every event is also written to this file descriptor as one JSON line
    /// (`E {...}`) at the moment it happens, so that a parent process still has the trace if
    /// this process dies during a call
    pub sink_fd: std::sync::atomic::AtomicI32,
    /// seed of the schedule perturbation applied inside implementation methods, caller-side
    /// closures and callback objects (0 = none)
    pub pseed: AtomicU64,
}

impl Ctx {
    pub fn new() -> Arc<Ctx> {
        Arc::new(Ctx {
            events: Default::default(),
            ledger: Default::default(),
            scripts: Default::default(),
            pcount: Default::default(),
            quiet: Default::default(),
            sink_fd: std::sync::atomic::AtomicI32::new(-1),
            pseed: AtomicU64::new(0),
        })
    }
    pub fn ev(&self, k: &str, n: &[u64], d: Vec<DV>) {
        if self.quiet.load(Ordering::Relaxed) {
            return;
        }
        let e = Ev { k: k.to_string(), n: n.to_vec(), d };
        let fd = self.sink_fd.load(Ordering::Relaxed);
        if fd >= 0 {
            use std::io::Write;
            use std::os::fd::FromRawFd;
            let mut f = std::mem::ManuallyDrop::new(unsafe { std::fs::File::from_raw_fd(fd) });
            let _ = writeln!(f, "E {}", serde_json::to_string(&e).unwrap());
        }
        self.events.lock().unwrap().push(e);
    }
    pub fn events(&self) -> Vec<Ev> {
        self.events.lock().unwrap().clone()
    }
    pub fn token(self: &Arc<Self>, label: &str) -> DropToken {
        let mut l = self.ledger.lock().unwrap();
        l.push(TokenRec { label: label.to_string(), drops: 0 });
        DropToken { ctx: self.clone(), id: l.len() - 1 }
    }
    pub fn ledger(&self) -> Vec<TokenRec> {
        self.ledger.lock().unwrap().clone()
    }
    /// script for the next implementation call made by the current thread
    pub fn set_script(&self, s: &ImplScript) {
        let mut m = self.scripts.lock().unwrap();
        let q = m.entry(std::thread::current().id()).or_default();
        q.clear();
        q.push_back(s.clone());
    }
    pub fn clear_script(&self) {
        self.scripts.lock().unwrap().remove(&std::thread::current().id());
    }
    fn take_script(&self) -> Option<ImplScript> {
        self.scripts.lock().unwrap().get_mut(&std::thread::current().id()).and_then(|q| q.pop_front())
    }
    /// Seeded schedule perturbation (C16): yield or sleep a few microseconds, decided by a hash of
    /// (seed, per-context counter). No clock and no OS randomness is involved in the decision.
    pub fn perturb(&self, seed: u64) {
        if seed == 0 {
            return;
        }
        let n = self.pcount.fetch_add(1, Ordering::Relaxed);
        let mut z = seed ^ n.wrapping_mul(0x9E37_79B9_7F4A_7C15);
        z = (z ^ (z >> 30)).wrapping_mul(0xBF58_476D_1CE4_E5B9);
        z = (z ^ (z >> 27)).wrapping_mul(0x94D0_49BB_1331_11EB);
        z ^= z >> 31;
        match z % 8 {
            0 | 1 | 2 => std::thread::yield_now(),
            3 => std::thread::sleep(std::time::Duration::from_micros(20 + (z >> 8) % 200)),
            4 => {
                for _ in 0..((z >> 8) % 2000) {
                    std::hint::spin_loop();
                }
            }
            _ => {}
        }
    }
    /// Called by caller-side closures: records the invocation, returns the scripted value.
    pub fn closure_invoked(&self, arg: usize, n: usize, args: Vec<DV>, rets: &[DV]) -> DV {
        self.perturb(self.pseed.load(Ordering::Relaxed));
        let r = if rets.is_empty() { DV::unit() } else { rets[n % rets.len()].clone() };
        let mut d = args;
        d.push(r.clone());
        self.ev("caller.closure", &[arg as u64, n as u64], d);
        r
    }
}

pub struct DropToken {
    ctx: Arc<Ctx>,
    id: usize,
}
impl DropToken {
    #[inline]
    pub fn touch(&self) {}
}
impl Drop for DropToken {
    fn drop(&mut self) {
        self.ctx.ledger.lock().unwrap()[self.id].drops += 1;
    }
}

// ---------------------------------------------------------------------------------------------
// Implementation side

pub struct ImplHandle {
    ctx: Arc<Ctx>,
    _tok: DropToken,
    calls: AtomicU64,
}

/// Optional user-code-in-Drop behaviour of every implementation object (C16): the hook runs when an
/// implementation is dropped, e.g. to create a further connection the way a plugin's Drop may talk
/// to other plugins. Not re-entered from objects created by the hook itself.
pub static IMPL_DROP_HOOK: std::sync::RwLock<Option<Box<dyn Fn() + Send + Sync>>> = std::sync::RwLock::new(None);
thread_local! {
    static IN_DROP_HOOK: std::cell::Cell<bool> = std::cell::Cell::new(false);
}
impl Drop for ImplHandle {
    fn drop(&mut self) {
        if IN_DROP_HOOK.with(|f| f.get()) {
            return;
        }
        if let Ok(g) = IMPL_DROP_HOOK.read() {
            if let Some(h) = &*g {
                IN_DROP_HOOK.with(|f| f.set(true));
                h();
                IN_DROP_HOOK.with(|f| f.set(false));
            }
        }
    }
}

pub struct Script {
    pub ret: DV,
    panic: Option<PanicSpec>,
    plans: Vec<Vec<Vec<DV>>>,
}

static EMPTY_PLAN: Vec<Vec<DV>> = Vec::new();

impl Script {
    pub fn plan(&self, arg: usize) -> &Vec<Vec<DV>> {
        self.plans.get(arg).unwrap_or(&EMPTY_PLAN)
    }
    pub fn maybe_panic(&self) {
        if let Some(p) = &self.panic {
            match p.kind {
                PanicKind::Literal => match p.word % 4 {
                    0 => panic!("scripted literal panic alpha"),
                    1 => panic!("scripted literal panic bravo"),
                    2 => panic!("scripted literal panic charlie"),
                    _ => panic!("scripted literal panic delta"),
                },
                PanicKind::Formatted => panic!("scripted formatted panic {} code {}", WORDS[p.word % 4], p.code),
                PanicKind::NonString => std::panic::panic_any(42u32),
            }
        }
    }
}

impl ImplHandle {
    pub fn new(ctx: &Arc<Ctx>, label: &str) -> ImplHandle {
        ImplHandle { ctx: ctx.clone(), _tok: ctx.token(&format!("impl {}", label)), calls: AtomicU64::new(0) }
    }
    pub fn ctx(&self) -> &Arc<Ctx> {
        &self.ctx
    }
    /// Start of every implementation method: log what was observed, fetch the script.
    pub fn begin(&self, method: &str, mutating: bool, args: Vec<DV>) -> Script {
        let n = if mutating { self.calls.fetch_add(1, Ordering::Relaxed) + 1 } else { self.calls.load(Ordering::Relaxed) };
        let s = self.ctx.take_script().unwrap_or(ImplScript { ret: DV::unit(), panic: None, plans: vec![], perturb: 0 });
        self.ctx.perturb(if s.perturb != 0 { s.perturb } else { self.ctx.pseed.load(Ordering::Relaxed) });
        self.ctx.ev(&format!("impl.call:{}", method), &[n], args);
        Script { ret: s.ret, panic: s.panic, plans: s.plans }
    }
    pub fn cb_result(&self, arg: usize, n: usize, r: DV) {
        self.ctx.ev("impl.cb_result", &[arg as u64, n as u64], vec![r]);
    }
}

// ---------------------------------------------------------------------------------------------
// Fixed callback interface (the "other trait" passed and returned as trait object)

#[savefile_abi_exportable(version = 0)]
pub trait Cb {
    fn ping(&self, x: u32) -> u32;
    fn note(&mut self, s: &str) -> usize;
}

pub struct CbImpl {
    ctx: Arc<Ctx>,
    id: u32,
    state: usize,
    _tok: DropToken,
}
impl CbImpl {
    pub fn new(ctx: &Arc<Ctx>, id: u32) -> CbImpl {
        CbImpl { ctx: ctx.clone(), id, state: 0, _tok: ctx.token("cb_object") }
    }
}
impl Cb for CbImpl {
    fn ping(&self, x: u32) -> u32 {
        self.ctx.perturb(self.ctx.pseed.load(Ordering::Relaxed));
        let r = x.wrapping_mul(31).wrapping_add(self.id);
        self.ctx.ev("obj.ping", &[self.id as u64], vec![DV::N(x as u128), DV::N(r as u128)]);
        r
    }
    fn note(&mut self, s: &str) -> usize {
        self.state += s.len() + 1;
        self.ctx.ev("obj.note", &[self.id as u64, self.state as u64], vec![DV::S(s.to_string())]);
        self.state
    }
}

// ---------------------------------------------------------------------------------------------
// Caller side helpers

thread_local! {
    static IN_GUARDED: std::cell::Cell<bool> = std::cell::Cell::new(false);
}

/// Panics raised while a guarded call is running are captured as data, not printed.
pub fn quiet_panics() {
    std::panic::set_hook(Box::new(|info| {
        if !IN_GUARDED.with(|g| g.get()) {
            eprintln!("HARNESS PANIC: {}", info);
        }
    }));
}

pub fn panic_text(p: Box<dyn std::any::Any + Send>) -> String {
    if let Some(s) = p.downcast_ref::<&str>() {
        s.to_string()
    } else if let Some(s) = p.downcast_ref::<String>() {
        s.clone()
    } else {
        "<non-string panic payload>".to_string()
    }
}

pub fn guarded(f: impl FnOnce() -> DV) -> RetOut {
    let prev = IN_GUARDED.with(|g| g.replace(true));
    let r = catch_unwind(AssertUnwindSafe(f));
    IN_GUARDED.with(|g| g.set(prev));
    match r {
        Ok(v) => RetOut::Val(v),
        Err(p) => RetOut::Panic(panic_text(p)),
    }
}

pub fn guard_any<T>(f: impl FnOnce() -> T) -> Result<T, String> {
    let prev = IN_GUARDED.with(|g| g.replace(true));
    let r = catch_unwind(AssertUnwindSafe(f));
    IN_GUARDED.with(|g| g.set(prev));
    r.map_err(panic_text)
}

pub fn slice_dyn<T: hcore::dynglue::Dyn>(s: &[T]) -> DV {
    DV::L(s.iter().map(|x| x.to_dyn()).collect())
}

fn noop_raw() -> RawWaker {
    fn clone(_: *const ()) -> RawWaker {
        noop_raw()
    }
    fn noop(_: *const ()) {}
    static VT: RawWakerVTable = RawWakerVTable::new(clone, noop, noop, noop);
    RawWaker::new(std::ptr::null(), &VT)
}

/// Minimal executor: polls until ready (the generated futures wake themselves).
pub fn block_on<F: Future>(f: F) -> F::Output {
    let mut f = std::pin::pin!(f);
    let waker = unsafe { Waker::from_raw(noop_raw()) };
    let mut cx = Context::from_waker(&waker);
    for _ in 0..100_000 {
        if let Poll::Ready(v) = f.as_mut().poll(&mut cx) {
            return v;
        }
    }
    panic!("harness: future did not complete after 100000 polls");
}

/// Future that is pending exactly once.
pub struct YieldOnce(bool);
impl YieldOnce {
    pub fn new() -> YieldOnce {
        YieldOnce(false)
    }
}
impl Future for YieldOnce {
    type Output = ();
    fn poll(mut self: Pin<&mut Self>, cx: &mut Context<'_>) -> Poll<()> {
        if self.0 {
            Poll::Ready(())
        } else {
            self.0 = true;
            cx.waker().wake_by_ref();
            Poll::Pending
        }
    }
}

// ---------------------------------------------------------------------------------------------
// Type-erased drivers

#[derive(Clone, Copy, Debug, PartialEq, Eq)]
pub enum ConnMode {
    /// `Box<dyn Trait>` used directly
    Direct,
    /// `AbiConnection::from_boxed_trait` (same revision on both sides)
    Abi,
    /// caller = this driver's revision, implementation = revision with the given index, wired
    /// with `AbiConnection::from_boxed_trait_for_test(<dyn ImplTrait>::ABI_ENTRY, impl)`
    AbiTo(usize),
}

pub trait Conn {
    /// run one scripted call (any method)
    fn call(&mut self, spec: &CallSpec) -> RetOut;
    /// run one scripted call of a `&self` method (None: not a `&self` method of this interface)
    fn call_ref(&self, spec: &CallSpec) -> Option<RetOut>;
    /// `AbiConnection::get_arg_passable_by_ref` (None for a direct connection)
    fn passable_by_ref(&self, method: &str, arg: usize) -> Option<bool>;
}

pub trait SharedConn: Conn + Send + Sync {}

pub trait Driver: Send + Sync {
    fn connect(&self, ctx: &Arc<Ctx>, mode: ConnMode) -> Result<Box<dyn Conn>, String>;
    /// only for interfaces declared `: Send + Sync`
    fn connect_shared(&self, _ctx: &Arc<Ctx>, _mode: ConnMode) -> Option<Result<Arc<dyn SharedConn>, String>> {
        None
    }
    /// `savefile_abi::verify_compatiblity::<dyn Trait>(dir)`
    fn verify_ledger(&self, dir: &str) -> Result<(), String>;
    fn latest_version(&self) -> u32;
    fn trait_name(&self) -> String;
    /// (is `AbiConnection<dyn Trait>` Send, is it Sync), as decided by the compiler for the
    /// library under test (see `Probe`)
    fn connection_markers(&self) -> (bool, bool);
}

/// Compile-time question "does T implement Send / Sync" answered as a runtime bool at a
/// monomorphic call site: the inherent method (only present when the bound holds) wins over
/// the trait method.
pub struct Probe<T: ?Sized>(pub std::marker::PhantomData<T>);
pub trait NotSync {
    fn is_sync(&self) -> bool {
        false
    }
}
impl<T: ?Sized> NotSync for Probe<T> {}
impl<T: ?Sized + Sync> Probe<T> {
    pub fn is_sync(&self) -> bool {
        true
    }
}
pub trait NotSend {
    fn is_send(&self) -> bool {
        false
    }
}
impl<T: ?Sized> NotSend for Probe<T> {}
impl<T: ?Sized + Send> Probe<T> {
    pub fn is_send(&self) -> bool {
        true
    }
}
