//! Case logic for the data-batch properties (C01, C02, C04, C12).

use hcore::ops::*;
use hcore::runner::*;
use serde_json::{json, Value};
use std::collections::BTreeMap;
use std::sync::Arc;
use vcore::dv::DV;
use vcore::enc::{header, EncErr, HEADER_LEN};
use vcore::gen::{DataBatch, Root};
use vcore::ir::*;

pub struct Batch {
    pub name: &'static str,
    pub seed: u64,
    pub uni: Arc<Universe>,
    pub roots: Vec<Root>,
    pub ops: Vec<Box<dyn TypeOps>>,
    pub gen_stats: BTreeMap<String, usize>,
}

pub fn load_batches() -> Vec<Batch> {
    let mk = |name: &'static str, json: &str, ops: Vec<Box<dyn TypeOps>>| {
        let b: DataBatch = serde_json::from_str(json).expect("IR json");
        assert_eq!(b.roots.len(), ops.len());
        Batch { name, seed: b.seed, uni: Arc::new(b.uni), roots: b.roots, ops, gen_stats: b.stats }
    };
    vec![
        mk("fixed", gen_data::fixed::IR_JSON, gen_data::fixed::roots()),
        mk("seeded", gen_data::seeded::IR_JSON, gen_data::seeded::roots()),
    ]
}

#[derive(Clone, Debug)]
pub struct Fail {
    /// short name of the oracle that failed (stable: used in signatures)
    pub check: String,
    pub detail: String,
    pub extra: Value,
}

fn fail(check: &str, detail: String, extra: Value) -> Fail {
    Fail { check: check.to_string(), detail, extra }
}

/// Versions at which this root is exercised, with the model's expectation for a reload.
fn versions(b: &Batch, ty: &Ty) -> Vec<u32> {
    if b.uni.has_version_dependence(ty) {
        b.uni.versions()
    } else {
        vec![b.uni.version]
    }
}

fn prefix_for(p: PathK, vals: &[DV], k: usize) -> Vec<DV> {
    match p {
        PathK::Single => vec![vals[0].clone()],
        PathK::Arr3 => vals[..3].to_vec(),
        _ => vals[..k.min(vals.len())].to_vec(),
    }
}

fn canon_list(u: &Universe, ty: &Ty, xs: &[DV]) -> Vec<DV> {
    xs.iter().map(|x| u.canon(ty, x)).collect()
}

pub fn def_features(u: &Universe, ty: &Ty) -> BTreeMap<String, String> {
    let mut m = BTreeMap::new();
    m.insert("root_kind".to_string(), ty_kind(ty).to_string());
    if let Ty::Def(i, _) = ty {
        let d = &u.defs[*i];
        m.insert("def_class".into(), vcore::gen::def_class(d));
        if let DefKind::Enum { variants } = &d.kind {
            let explicit = variants.iter().any(|v| v.discr.is_some());
            let mixed = variants.iter().any(|v| v.shape == Shape::Unit) && variants.iter().any(|v| v.shape != Shape::Unit);
            m.insert("explicit_discriminants".into(), explicit.to_string());
            m.insert("mixed_unit_data".into(), mixed.to_string());
        }
        let closed_live = d.fields_all().iter().any(|f| f.is_live() && f.vto.is_some());
        m.insert("closed_range_live_field".into(), closed_live.to_string());
    }
    m
}

/// Structural flags over everything reachable from a type; used in violation signatures so
/// that a known finding is identified by the shape of definition that triggers it.
pub fn reach_flags(u: &Universe, ty: &Ty) -> Vec<&'static str> {
    let mut out = vec![];
    // int-repr enum with at least one field-less and one data variant (unit variant has padding)
    if u.any_ty(ty, &|t| match t {
        Ty::Def(i, _) => {
            let d = &u.defs[*i];
            matches!(d.repr, Repr::Int(_) | Repr::CInt(_))
                && matches!(&d.kind, DefKind::Enum { variants } if variants.iter().any(|v| v.fields.is_empty()) && variants.iter().any(|v| !v.fields.is_empty()))
        }
        _ => false,
    }) {
        out.push("mixed_int_repr_enum");
    }
    if u.any_ty(ty, &|t| matches!(t, Ty::Leaf(Leaf::SocketAddr))) {
        out.push("socket_addr");
    }
    if u.any_ty(ty, &|t| matches!(t, Ty::Map(MapKind::Hash, _, _) | Ty::Map(MapKind::Index, _, _))) {
        out.push("hash_or_index_map");
    }
    out
}

pub fn ty_kind(ty: &Ty) -> &'static str {
    match ty {
        Ty::Prim(_) => "prim",
        Ty::Str => "string",
        Ty::Unit => "unit",
        Ty::Opt(_) => "option",
        Ty::Res(_, _) => "result",
        Ty::Seq(_, _) => "seq",
        Ty::Set(_, _) => "set",
        Ty::Map(_, _, _) => "map",
        Ty::Array(_, _) => "array",
        Ty::Tuple(_) => "tuple",
        Ty::Wrap(_, _) => "wrap",
        Ty::Range(_) => "range",
        Ty::Leaf(_) => "leaf",
        Ty::Def(_, _) => "def",
        Ty::Param(_) => "param",
    }
}

thread_local! {
    static SIDE: std::cell::RefCell<Vec<(Fail, Vec<DV>)>> = std::cell::RefCell::new(vec![]);
}
/// Record a failure that reproduces a *known* misdescription without failing the case (the
/// campaign for the root type goes on); at most one per (check, at) is kept until drained.
pub fn side_fail(f: Fail, vals: &[DV]) {
    SIDE.with(|s| {
        let mut s = s.borrow_mut();
        let at = f.extra.get("at").cloned();
        if !s.iter().any(|(g, _)| g.check == f.check && g.extra.get("at").cloned() == at) {
            s.push((f, vals.to_vec()));
        }
    })
}
pub fn take_side() -> Vec<(Fail, Vec<DV>)> {
    SIDE.with(|s| std::mem::take(&mut *s.borrow_mut()))
}

pub fn run_case(prop: &str, b: &Batch, ri: usize, vals: &[DV], k: usize, st: &mut Stats, counting: bool) -> Result<(), Fail> {
    match prop {
        "C01" => c01_case(b, ri, vals, k, st, counting),
        "C02" => c02_case(b, ri, vals, k, st, counting),
        "C04" => c04_case(b, ri, vals, k, st, counting),
        "C12" => crate::schema_reader::c12_case(b, ri, vals, k, st, counting),
        other => panic!("unknown property {}", other),
    }
}

fn expect_ok<T>(o: Out<T>, what: &str, extra: Value) -> Result<T, Fail> {
    match o {
        Out::Ok(x) => Ok(x),
        Out::Err(e) => Err(fail(&format!("{}_err", what), format!("{} returned Err({}: {})", what, e.kind, e.msg), extra)),
        Out::Panic(m) => Err(fail(&format!("{}_panic", what), format!("{} panicked: {}", what, m), extra)),
    }
}

// ------------------------------------------------------------------------------------ C01

pub fn c01_case(b: &Batch, ri: usize, vals: &[DV], k: usize, st: &mut Stats, counting: bool) -> Result<(), Fail> {
    let ops = &b.ops[ri];
    let ty = &b.roots[ri].ty;
    let u = &*b.uni;
    let cur = u.version;
    let vals: Vec<DV> = vals.iter().map(|v| ops.normalize(v)).collect();
    for v in versions(b, ty) {
        // the model's expectation for "save at v, load with the current program"
        let mut expected = vec![];
        let mut model_ok = true;
        for x in &vals {
            match u.after_reload(ty, v, x) {
                // re-normalise: elements that become equal after defaulting collapse in sets
                Ok(e) => expected.push(ops.normalize(&e)),
                Err(EncErr::WriterRejects(_)) | Err(EncErr::NoExp(_)) => {
                    model_ok = false;
                    break;
                }
            }
        }
        if !model_ok {
            if counting {
                *st.excluded.entry("version_where_documented_writer_refuses".into()).or_insert(0) += 1;
            }
            continue;
        }
        let mut plans: Vec<(Container, PathK)> = ALL_CONTAINERS.iter().map(|c| (*c, PathK::Single)).collect();
        for p in BULK_PATHS {
            plans.push((Container::Bare, p));
            plans.push((Container::Plain, p));
        }
        for (c, p) in plans {
            let input = prefix_for(p, &vals, k);
            let exp = prefix_for(p, &expected, k);
            let extra = json!({"container": format!("{:?}", c), "path": format!("{:?}", p), "version": v});
            let bytes = expect_ok(ops.write_vec(c, p, v, &input), "save", extra.clone())?;
            let load_version = if c == Container::Bare { v } else { cur };
            let (got, consumed) = expect_ok(ops.read_slice(c, p, load_version, &bytes), "load", extra.clone())?;
            if counting {
                st.evaluations += 1;
            }
            if canon_list(u, ty, &got) != canon_list(u, ty, &exp) {
                return Err(fail(
                    "roundtrip_value",
                    format!("loaded value differs: expected {} got {}", DV::L(exp.clone()).render(), DV::L(got.clone()).render()),
                    json!({"container": format!("{:?}", c), "path": format!("{:?}", p), "version": v, "bytes": hex(&bytes)}),
                ));
            }
            let consumed_ok = if c == Container::Compressed { consumed <= bytes.len() } else { consumed == bytes.len() };
            if !consumed_ok {
                return Err(fail(
                    "roundtrip_consumed",
                    format!("load consumed {} of {} bytes", consumed, bytes.len()),
                    json!({"container": format!("{:?}", c), "path": format!("{:?}", p), "version": v}),
                ));
            }
            if counting && c == Container::Bare && p == PathK::Single {
                let x = &vals[0];
                if x.leaf_count() >= 2 && *x != vcore::strat::minimal_dv(u, ty) {
                    st.nontrivial.insert(vcore::rng::fnv64(format!("{}/{}/{}", b.name, ri, hex_full(&bytes)).as_bytes()));
                }
                st.class(&format!("root.{}", b.roots[ri].class));
                if st.samples.len() < 3 && x.leaf_count() >= 3 {
                    st.sample(json!({"type": ops.type_name(), "value": x.render(), "bare_bytes": hex(&bytes), "version": v}));
                }
            }
        }
    }
    Ok(())
}

// ------------------------------------------------------------------------------------ C02

/// Compare library bytes with the reference encoding. For types with unordered containers the
/// comparison is up to element order (reference decoder finds element boundaries).
fn bytes_conform(u: &Universe, ty: &Ty, v: u32, x: &DV, lib: &[u8], reference: &[u8]) -> Result<(), String> {
    if !u.has_unordered(ty) {
        if lib != reference {
            return Err(format!("bytes differ: library {} reference {}", hex(lib), hex(reference)));
        }
        return Ok(());
    }
    if lib.len() != reference.len() {
        return Err(format!("length differs: library {} reference {}", lib.len(), reference.len()));
    }
    match u.dec_all(ty, v, lib) {
        Ok(d) => {
            let want = match u.after_reload(ty, v, x) {
                Ok(w) => w,
                // no expectation for the value (e.g. hash-map keys that collide at this version): the
                // lengths agree and the reference decoder accepts the bytes, nothing more can be said
                Err(EncErr::NoExp(_)) => return Ok(()),
                Err(e) => return Err(format!("{:?}", e)),
            };
            if u.canon(ty, &d) != u.canon(ty, &want) {
                return Err(format!("reference decoder reads {} from library bytes, value is {}", d.render(), want.render()));
            }
            Ok(())
        }
        Err(e) => Err(format!("reference decoder rejects library bytes: {:?}", e)),
    }
}

pub fn c02_case(b: &Batch, ri: usize, vals: &[DV], _k: usize, st: &mut Stats, counting: bool) -> Result<(), Fail> {
    let ops = &b.ops[ri];
    let ty = &b.roots[ri].ty;
    let u = &*b.uni;
    let cur = u.version;
    for x in vals.iter().take(2) {
        let x = ops.normalize(x);
        for v in versions(b, ty) {
            let ex = json!({"version": v});
            // (the value-level model sees a documented writer refusal even where the byte-level
            // reference stops earlier at a leaf whose encoding is private)
            let refuses = matches!(u.after_reload(ty, v, &x), Err(EncErr::WriterRejects(_)));
            let reference = match u.enc(ty, v, &x) {
                Ok(a) if !refuses => Some(a),
                Err(EncErr::NoExp(_)) if !refuses => None,
                Ok(_) | Err(EncErr::NoExp(_)) | Err(EncErr::WriterRejects(_)) => {
                    if counting {
                        *st.excluded.entry("version_where_documented_writer_refuses".into()).or_insert(0) += 1;
                    }
                    continue;
                }
            };
            let bare = expect_ok(ops.write_vec(Container::Bare, PathK::Single, v, &[x.clone()]), "bare_serialize", ex.clone())?;
            let nos = expect_ok(ops.write_vec(Container::NoSchema, PathK::Single, v, &[x.clone()]), "save_noschema", ex.clone())?;
            let plain = expect_ok(ops.write_vec(Container::Plain, PathK::Single, v, &[x.clone()]), "save", ex.clone())?;
            if counting {
                st.evaluations += 1;
            }
            // header, byte for byte
            let h = header(v, false);
            if nos.len() < HEADER_LEN || nos[..HEADER_LEN] != h[..] {
                return Err(fail("wire_header", format!("save_noschema header {} != documented {}", hex(&nos[..nos.len().min(16)]), hex(&h)), ex));
            }
            if plain.len() < HEADER_LEN || plain[..HEADER_LEN] != h[..] {
                return Err(fail("wire_header", format!("save header {} != documented {}", hex(&plain[..plain.len().min(16)]), hex(&h)), ex));
            }
            // two separate saves of a hash container may iterate in different orders
            let same_payload = |a: &[u8], b: &[u8]| -> bool {
                if !u.has_unordered(ty) {
                    return a == b;
                }
                a.len() == b.len()
                    && match (u.dec_all(ty, v, a), u.dec_all(ty, v, b)) {
                        (Ok(x), Ok(y)) => u.canon(ty, &x) == u.canon(ty, &y),
                        (Err(vcore::enc::DecErr::NoExp(_)), _) | (_, Err(vcore::enc::DecErr::NoExp(_))) => true,
                        _ => false,
                    }
            };
            if !same_payload(&nos[HEADER_LEN..], &bare) {
                return Err(fail("wire_noschema_payload", "save_noschema payload differs from bare_serialize".into(), ex));
            }
            // save == header || schema || payload
            if plain.len() < HEADER_LEN + bare.len() || !same_payload(&plain[plain.len() - bare.len()..], &bare) {
                return Err(fail("wire_plain_payload", "save output does not end with the payload".into(), ex));
            }
            let schema_bytes = &plain[HEADER_LEN..plain.len() - bare.len()];
            match vcore::rschema::parse_schema(schema_bytes, 2) {
                Ok((_, used)) if used == schema_bytes.len() => {}
                Ok((_, used)) => {
                    return Err(fail(
                        "wire_schema_section",
                        format!("reference schema parser consumed {} of {} schema bytes", used, schema_bytes.len()),
                        ex,
                    ))
                }
                Err(e) => return Err(fail("wire_schema_section", format!("reference schema parser rejects schema section: {}", e), ex)),
            }
            // determinism
            if !u.has_unordered(ty) {
                let again = expect_ok(ops.write_vec(Container::Bare, PathK::Single, v, &[x.clone()]), "bare_serialize", ex.clone())?;
                if again != bare {
                    return Err(fail("wire_determinism", "saving the same value twice gave different bytes".into(), ex));
                }
            }
            if let Some(r) = &reference {
                if let Err(m) = bytes_conform(u, ty, v, &x, &bare, &r.bytes) {
                    return Err(fail("wire_bytes", m, json!({"version": v, "library": hex(&bare), "reference": hex(&r.bytes)})));
                }
                // independent writer: the library must read what the reference encoder wrote
                // (re-normalised: set elements that become equal after defaulting collapse)
                let want = u.after_reload(ty, v, &x).ok().map(|w| ops.normalize(&w));
                if let Some(want) = want {
                    let mut file = header(v, false);
                    file.extend_from_slice(&r.bytes);
                    let (got, consumed) = expect_ok(ops.read_slice(Container::NoSchema, PathK::Single, cur, &file), "load_reference_bytes", ex.clone())?;
                    if u.canon(ty, &got[0]) != u.canon(ty, &want) || consumed != file.len() {
                        return Err(fail(
                            "wire_independent_writer",
                            format!("library read {} (consumed {}/{}) from reference-encoded {}", got[0].render(), consumed, file.len(), want.render()),
                            json!({"version": v, "reference": hex(&r.bytes)}),
                        ));
                    }
                }
                if counting {
                    st.class("with_reference_encoding");
                    if r.bytes.len() >= 3 && x.leaf_count() >= 2 {
                        st.nontrivial.insert(vcore::rng::fnv64(&r.bytes) ^ (ri as u64) << 40);
                    }
                    if st.samples.len() < 3 && r.bytes.len() >= 6 {
                        st.sample(json!({"type": ops.type_name(), "value": x.render(), "version": v, "bytes": hex(&bare)}));
                    }
                }
            } else if counting {
                st.class("private_leaf_encoding_determinism_only");
            }
        }
    }
    Ok(())
}

// ------------------------------------------------------------------------------------ C04

pub fn c04_case(b: &Batch, ri: usize, vals: &[DV], k: usize, st: &mut Stats, counting: bool) -> Result<(), Fail> {
    let ops = &b.ops[ri];
    let ty = &b.roots[ri].ty;
    let u = &*b.uni;
    let vals: Vec<DV> = vals.iter().map(|v| ops.normalize(v)).collect();
    let mut any_packed = false;
    for v in u.versions() {
        let packed = ops.packed(v);
        any_packed |= packed;
        // singles
        let mut singles: Vec<Vec<u8>> = vec![];
        let mut refuse = false;
        for x in &vals {
            match u.after_reload(ty, v, x) {
                // documented writer refusal (Removed<T>, absent variant) or a field whose old
                // wire type is only known to the reader (savefile_versions_as): outside the relation
                Err(EncErr::WriterRejects(_)) | Err(EncErr::NoExp(_)) => {
                    refuse = true;
                    break;
                }
                _ => {}
            }
            let ex = json!({"version": v, "packed": packed});
            singles.push(expect_ok(ops.write_vec(Container::Bare, PathK::Single, v, &[x.clone()]), "bare_serialize", ex)?);
        }
        if refuse {
            if counting {
                *st.excluded.entry("version_where_documented_writer_refuses".into()).or_insert(0) += 1;
            }
            continue;
        }
        if counting {
            st.evaluations += 1;
            st.class(if packed { "packed_yes" } else { "packed_no" });
        }
        // (3) single == reference encoding
        for (x, s) in vals.iter().zip(&singles) {
            if let Ok(r) = u.enc(ty, v, x) {
                if let Err(m) = bytes_conform(u, ty, v, x, s, &r.bytes) {
                    return Err(fail("packed_single_vs_reference", m, json!({"version": v, "packed": packed, "value": x.render()})));
                }
            }
        }
        // (4) a type that claims to be packed must have a memory image identical to its encoding
        if packed {
            for (x, s) in vals.iter().zip(&singles) {
                if ops.size_of() != s.len() {
                    return Err(fail(
                        "packed_size_mismatch",
                        format!("type claims packed at version {} but size_of={} and the value encodes to {} bytes", v, ops.size_of(), s.len()),
                        json!({"version": v, "value": x.render(), "encoded": hex(s)}),
                    ));
                }
                let img = ops.mem_image(x);
                if &img != s {
                    return Err(fail(
                        "packed_image_mismatch",
                        format!("type claims packed at version {} but memory image {} != field-by-field encoding {}", v, hex(&img), hex(s)),
                        json!({"version": v, "value": x.render()}),
                    ));
                }
            }
        }
        // (1) bulk bytes == [len] ++ singles, (2) bulk decode == element-wise decode
        let mut single_dec: Vec<DV> = vec![];
        for s in &singles {
            if std::env::var_os("VERIF_TRACE").is_some() {
                eprintln!("TRACE c04 single v={} {} bytes={}", v, ops.type_name(), hex_full(s));
            }
            let (d, c) = expect_ok(ops.read_slice(Container::Bare, PathK::Single, v, s), "bare_deserialize", json!({"version": v}))?;
            if c != s.len() {
                return Err(fail("packed_single_consumed", format!("single decode consumed {} of {}", c, s.len()), json!({"version": v})));
            }
            single_dec.push(d[0].clone());
        }
        let unordered = u.has_unordered(ty);
        for p in BULK_PATHS {
            let input = prefix_for(p, &vals, k);
            let n = input.len();
            let ex = json!({"version": v, "path": format!("{:?}", p), "packed": packed});
            let bulk = expect_ok(ops.write_vec(Container::Bare, p, v, &input), "bare_serialize_bulk", ex.clone())?;
            let mut want: Vec<u8> = vec![];
            if p != PathK::Arr3 {
                want.extend_from_slice(&(n as u64).to_le_bytes());
            }
            for s in singles.iter().take(n) {
                want.extend_from_slice(s);
            }
            if !unordered && bulk != want {
                return Err(fail(
                    "packed_bulk_bytes",
                    format!("{:?} bytes {} != concatenated singles {}", p, hex(&bulk), hex(&want)),
                    ex,
                ));
            }
            if unordered && bulk.len() != want.len() {
                return Err(fail("packed_bulk_bytes", format!("{:?} length {} != concatenated singles {}", p, bulk.len(), want.len()), ex));
            }
            // decode the *concatenated singles* through the bulk reader
            if std::env::var_os("VERIF_TRACE").is_some() {
                eprintln!("TRACE c04 bulk {:?} v={} {} bytes={}", p, v, ops.type_name(), hex_full(&want));
            }
            let (got, c) = expect_ok(ops.read_slice(Container::Bare, p, v, &want), "bare_deserialize_bulk", ex.clone())?;
            if c != want.len() {
                return Err(fail("packed_bulk_consumed", format!("{:?} decode consumed {} of {}", p, c, want.len()), ex));
            }
            if canon_list(u, ty, &got) != canon_list(u, ty, &single_dec[..n]) {
                return Err(fail(
                    "packed_bulk_values",
                    format!("{:?} decoded {} but element-wise decoding gives {}", p, DV::L(got).render(), DV::L(single_dec[..n].to_vec()).render()),
                    ex,
                ));
            }
        }
        if counting {
            let prim_def = matches!(ty, Ty::Def(i, _) if u.defs[*i].fields_all().iter().all(|f| matches!(f.ty, Ty::Prim(_) | Ty::Array(_, _) | Ty::Tuple(_))));
            if packed || prim_def {
                st.nontrivial.insert(vcore::rng::fnv64(format!("{}/{}/{}/{}", b.name, ri, v, hex_full(&singles.concat())).as_bytes()));
            }
            if packed && st.samples.len() < 3 {
                st.sample(json!({"type": ops.type_name(), "version": v, "packed": true, "size_of": ops.size_of(), "value": vals[0].render(), "bytes": hex(&singles[0])}));
            }
        }
    }
    if counting && any_packed {
        st.class("root_packed_at_some_version");
    }
    Ok(())
}

// ------------------------------------------------------------------------------------ violations / replay

pub fn def_source(b: &Batch, ty: &Ty) -> String {
    let mut out = String::new();
    let mut seen = vec![];
    collect_defs(&b.uni, ty, &mut seen);
    seen.sort();
    for i in seen.iter().take(6) {
        vcore::emit::emit_def(&b.uni, *i, &mut out);
    }
    // only the declarations are interesting in a report
    out.lines().filter(|l| !l.contains("Dyn") && !l.trim().is_empty()).take(60).collect::<Vec<_>>().join("\n")
}

fn collect_defs(u: &Universe, ty: &Ty, seen: &mut Vec<usize>) {
    match ty {
        Ty::Def(i, args) => {
            if !seen.contains(i) {
                seen.push(*i);
                for f in u.defs[*i].fields_all() {
                    collect_defs(u, &f.ty, seen);
                }
            }
            for a in args {
                collect_defs(u, a, seen);
            }
        }
        Ty::Opt(a) | Ty::Seq(_, a) | Ty::Set(_, a) | Ty::Array(a, _) | Ty::Wrap(_, a) | Ty::Range(a) => collect_defs(u, a, seen),
        Ty::Res(a, b) | Ty::Map(_, a, b) => {
            collect_defs(u, a, seen);
            collect_defs(u, b, seen);
        }
        Ty::Tuple(ts) => ts.iter().for_each(|t| collect_defs(u, t, seen)),
        _ => {}
    }
}

pub fn make_violation(prop: &str, b: &Batch, ri: usize, vals: &[DV], k: usize, f: &Fail) -> Violation {
    let ty = &b.roots[ri].ty;
    let mut signature = def_features(&b.uni, ty);
    signature.insert("check".into(), f.check.clone());
    signature.insert("type".into(), b.uni.rust_ty(ty, ""));
    for fl in reach_flags(&b.uni, ty) {
        signature.insert(format!("reaches_{}", fl), "true".into());
    }
    if let Some(at) = f.extra.get("at").and_then(|x| x.as_str()) {
        signature.insert("at".into(), at.to_string());
    }
    if let Some(v) = f.extra.get("path").and_then(|x| x.as_str()) {
        signature.insert("path".into(), v.to_string());
    }
    let replay = json!({
        "kind": "data_case",
        "property": prop,
        "batch": b.name,
        "batch_seed": b.seed,
        "root_index": ri,
        "root_type": b.uni.rust_ty(ty, ""),
        "root_ty_ir": ty,
        "definitions": def_source(b, ty),
        "values": vals,
        "prefix_len": k,
        "failed_check": f.check,
        "detail": f.detail,
        "extra": f.extra,
    });
    Violation { signature, replay }
}

/// Plain regression re-run of one saved case (no proptest involved).
pub fn replay(args: &Args, batches: &[Batch], path: &str) -> i32 {
    let body: Value = match std::fs::read_to_string(path).ok().and_then(|s| serde_json::from_str(&s).ok()) {
        Some(v) => v,
        None => {
            eprintln!("cannot read replay file {}", path);
            return 2;
        }
    };
    let case = &body["case"];
    let prop = body["property"].as_str().unwrap_or(&args.prop).to_string();
    if case["kind"] != "data_case" {
        eprintln!("replay kind {:?} is not handled by this binary", case["kind"]);
        return 2;
    }
    let bname = case["batch"].as_str().unwrap_or("");
    let b = match batches.iter().find(|b| b.name == bname) {
        Some(b) => b,
        None => return 2,
    };
    let ri = case["root_index"].as_u64().unwrap_or(0) as usize;
    let want_ty: Ty = match serde_json::from_value(case["root_ty_ir"].clone()) {
        Ok(t) => t,
        Err(_) => return 2,
    };
    if ri >= b.roots.len() || b.roots[ri].ty != want_ty || b.uni.rust_ty(&want_ty, "") != case["root_type"].as_str().unwrap_or("") {
        eprintln!("replay: the generated batch does not contain the recorded root type at index {} (regenerate with VERIF_SEED={} / generator changed)", ri, body["seed"]);
        return 2;
    }
    let vals: Vec<DV> = serde_json::from_value(case["values"].clone()).unwrap();
    let k = case["prefix_len"].as_u64().unwrap_or(3) as usize;
    let mut st = Stats::default();
    let _ = take_side();
    let r = run_case(&prop, b, ri, &vals, k, &mut st, false);
    // failures recorded on the side (known misdescriptions): the replay file names which one
    let want_at = case["extra"]["at"].as_str().unwrap_or("").to_string();
    let r = match r {
        Ok(()) => match take_side().into_iter().find(|(f, _)| Some(f.check.as_str()) == case["failed_check"].as_str() && f.extra["at"].as_str().unwrap_or("") == want_at) {
            Some((f, _)) => Err(f),
            None => Ok(()),
        },
        e => e,
    };
    match r {
        Ok(()) => {
            println!("replay {}: case passes", path);
            0
        }
        Err(f) => {
            println!("replay {}: still fails: [{}] {}", path, f.check, f.detail);
            println!("VIOLATION property={} replay={}", prop, path);
            1
        }
    }
}
