//! Independent parser/decryptor of the encrypted stream framing (DESIGN.md appendix B):
//! 12-byte nonce seed (u64 || u32, little endian) || { u64 L || L bytes (ciphertext || 16-byte tag) }*
//! AES-256-GCM, nonce of chunk i = seed with the u32 part advanced i+1 times (carry into the u64
//! part), empty AAD. Uses `ring` directly, never savefile.
use ring::aead::{Aad, LessSafeKey, Nonce, UnboundKey, AES_256_GCM};

#[derive(Clone, Debug)]
pub struct Frames {
    pub nonce: [u8; 12],
    /// (offset of the length field, chunk body incl. tag)
    pub chunks: Vec<(usize, Vec<u8>)>,
    /// bytes after the last complete chunk (partial chunk)
    pub tail: Vec<u8>,
}

pub fn parse_frames(data: &[u8]) -> Option<Frames> {
    if data.len() < 12 {
        return None;
    }
    let mut nonce = [0u8; 12];
    nonce.copy_from_slice(&data[..12]);
    let mut pos = 12;
    let mut chunks = vec![];
    while data.len() - pos >= 8 {
        let l = u64::from_le_bytes(data[pos..pos + 8].try_into().unwrap()) as usize;
        if l > data.len() - pos - 8 {
            break;
        }
        chunks.push((pos, data[pos + 8..pos + 8 + l].to_vec()));
        pos += 8 + l;
    }
    Some(Frames { nonce, chunks, tail: data[pos..].to_vec() })
}

pub fn rebuild(f: &Frames, order: &[usize]) -> Vec<u8> {
    let mut out = f.nonce.to_vec();
    for i in order {
        let c = &f.chunks[*i].1;
        out.extend_from_slice(&(c.len() as u64).to_le_bytes());
        out.extend_from_slice(c);
    }
    out
}

fn nonce_for(seed: &[u8; 12], i: usize) -> [u8; 12] {
    let mut d1 = u64::from_le_bytes(seed[..8].try_into().unwrap());
    let mut d2 = u32::from_le_bytes(seed[8..].try_into().unwrap());
    for _ in 0..=i {
        d2 = d2.wrapping_add(1);
        if d2 == 0 {
            d1 = d1.wrapping_add(1);
        }
    }
    let mut n = [0u8; 12];
    n[..8].copy_from_slice(&d1.to_le_bytes());
    n[8..].copy_from_slice(&d2.to_le_bytes());
    n
}

/// Decrypt all complete chunks; Err if a chunk does not authenticate.
pub fn decrypt(f: &Frames, key: &[u8; 32]) -> Result<Vec<u8>, String> {
    let k = LessSafeKey::new(UnboundKey::new(&AES_256_GCM, key).map_err(|_| "key")?);
    let mut out = vec![];
    for (i, (_, c)) in f.chunks.iter().enumerate() {
        let mut buf = c.clone();
        let n = Nonce::assume_unique_for_key(nonce_for(&f.nonce, i));
        let plain = k.open_in_place(n, Aad::empty(), &mut buf).map_err(|_| format!("chunk {} does not authenticate", i))?;
        out.extend_from_slice(plain);
    }
    Ok(out)
}

pub fn key_for_password(pw: &str) -> [u8; 32] {
    let d = ring::digest::digest(&ring::digest::SHA256, pw.as_bytes());
    let mut k = [0u8; 32];
    k.copy_from_slice(d.as_ref());
    k
}
