//! C06 oracle shared by the proptest-driven check and the libFuzzer target: loading arbitrary
//! bytes gives a value or an error — no panic (except genuine out-of-memory on absurd declared
//! lengths), no invalid bool/char values, no collection larger than the input could encode.

use crate::data::*;
use hcore::ops::*;
use serde_json::{json, Value};
use vcore::dv::DV;
use vcore::enc::{Cur, DecErr, HEADER_LEN};
use vcore::ir::*;

pub struct MFail {
    pub check: String,
    pub detail: String,
    pub extra: Value,
}

/// Smallest wire size of an element, used for "a collection never claims more elements than
/// the input could have encoded".
/// Path segments are prefixed with `[bulk]` below a sequence or array of Copy elements (the
/// shapes the library reads with one raw memory copy), so that a report says whether an
/// invalid value arrived through a bulk copy or through the field-by-field reader.
fn check_value(u: &Universe, ty: &Ty, v: u32, dv: &DV, input_len: usize, path: &mut Vec<String>) -> Result<(), String> {
    let here = |p: &Vec<String>| p.join("/");
    match (ty, dv) {
        (Ty::Prim(Prim::Bool), DV::N(x)) | (Ty::Leaf(Leaf::Atomic(Prim::Bool)), DV::N(x)) => {
            if *x > 1 {
                return Err(format!("bool with bit pattern {} at {}", x, here(path)));
            }
        }
        (Ty::Prim(Prim::Char), DV::N(x)) => {
            if char::from_u32(*x as u32).is_none() || *x > u32::MAX as u128 {
                return Err(format!("char with invalid scalar value {:#x} at {}", x, here(path)));
            }
        }
        (Ty::Leaf(Leaf::BitVec), DV::V(u32::MAX, n))
        | (Ty::Leaf(Leaf::BitSet), DV::V(u32::MAX, n))
        | (Ty::Leaf(Leaf::BitVec08), DV::V(u32::MAX, n))
        | (Ty::Leaf(Leaf::BitSet08), DV::V(u32::MAX, n)) => {
            if n.len() > 2 {
                return Err(format!("bit container with {} elements has bits set (or storage words) beyond its length: comparing or hashing it panics or misbehaves, at {}", n[0].n(), here(path)));
            }
            return Err(format!("bit container with {} elements (storage for {}) returned from {} input bytes at {}", n[0].n(), n.get(1).map(|x| x.n()).unwrap_or(0), input_len, here(path)));
        }
        (Ty::Prim(_), _) | (Ty::Str, _) | (Ty::Unit, _) | (Ty::Leaf(_), _) => {}
        (Ty::Opt(a), DV::V(i, xs)) => {
            if *i == 1 {
                check_value(u, a, v, &xs[0], input_len, path)?;
            }
        }
        (Ty::Res(a, b), DV::V(i, xs)) => check_value(u, if *i == 1 { a } else { b }, v, &xs[0], input_len, path)?,
        (Ty::Seq(_, a), DV::L(xs)) | (Ty::Set(_, a), DV::L(xs)) => {
            let m = u.min_wire(a, v);
            if m > 0 && xs.len().saturating_mul(m) > input_len {
                return Err(format!("collection with {} elements (>= {} bytes each) returned from {} input bytes at {}", xs.len(), m, input_len, here(path)));
            }
            let mark = if raw_copy_shape(u, a) { "[bulk]" } else { "" };
            for (i, x) in xs.iter().enumerate().take(4096) {
                path.push(format!("{}{}", mark, i));
                check_value(u, a, v, x, input_len, path)?;
                path.pop();
            }
        }
        (Ty::Map(_, k, val), DV::L(xs)) => {
            let m = u.min_wire(k, v) + u.min_wire(val, v);
            if m > 0 && xs.len().saturating_mul(m) > input_len {
                return Err(format!("map with {} entries returned from {} input bytes at {}", xs.len(), input_len, here(path)));
            }
            for kv in xs.iter().take(4096) {
                let kv = kv.l();
                check_value(u, k, v, &kv[0], input_len, path)?;
                check_value(u, val, v, &kv[1], input_len, path)?;
            }
        }
        (Ty::Array(a, _), DV::L(xs)) | (Ty::Range(a), DV::L(xs)) => {
            let mark = if matches!(ty, Ty::Array(_, _)) && raw_copy_shape(u, a) { "[bulk]" } else { "" };
            for (i, x) in xs.iter().enumerate() {
                path.push(format!("{}{}", mark, i));
                check_value(u, a, v, x, input_len, path)?;
                path.pop();
            }
        }
        (Ty::Tuple(ts), DV::L(xs)) => {
            for (t, x) in ts.iter().zip(xs) {
                check_value(u, t, v, x, input_len, path)?;
            }
        }
        (Ty::Wrap(_, a), _) => check_value(u, a, v, dv, input_len, path)?,
        (Ty::Def(i, args), _) => {
            let d = &u.defs[*i];
            match (&d.kind, dv) {
                (DefKind::Struct { fields, .. }, DV::L(xs)) => {
                    for (f, x) in Universe::live(fields).iter().zip(xs) {
                        path.push(f.name.clone());
                        check_value(u, &Universe::subst(&f.ty, args), v, x, input_len, path)?;
                        path.pop();
                    }
                }
                (DefKind::Enum { variants }, DV::V(vi, xs)) => {
                    if *vi == u32::MAX - 1 {
                        return Err(format!("enum {} with invalid in-memory discriminant {} at {}", d.name, xs[0].n() as i128, here(path)));
                    }
                    if *vi as usize >= variants.len() {
                        return Err(format!("enum {} with variant index {} at {}", d.name, vi, here(path)));
                    }
                    for (f, x) in Universe::live(&variants[*vi as usize].fields).iter().zip(xs) {
                        check_value(u, &Universe::subst(&f.ty, args), v, x, input_len, path)?;
                    }
                }
                _ => return Err(format!("value of unexpected shape at {}", here(path))),
            }
        }
        _ => return Err(format!("value of unexpected shape at {}", here(path))),
    }
    Ok(())
}

/// Could the library read this type with one raw memory copy? (primitives and definitions,
/// tuples and arrays made only of such fields; fields that are gone from memory do not count) —
/// the shapes for which it is the *bulk* reader, not the field-by-field one, that produced a value.
fn raw_copy_shape(u: &Universe, ty: &Ty) -> bool {
    match ty {
        Ty::Prim(_) | Ty::Unit => true,
        Ty::Array(a, _) => raw_copy_shape(u, a),
        Ty::Tuple(ts) => ts.iter().all(|t| raw_copy_shape(u, t)),
        Ty::Def(i, args) => {
            let d = &u.defs[*i];
            !d.recursive && d.fields_all().iter().filter(|f| f.is_live()).all(|f| raw_copy_shape(u, &Universe::subst(&f.ty, args)))
        }
        _ => false,
    }
}

fn elem_ty(p: PathK, ty: &Ty) -> Ty {
    match p {
        PathK::Single => ty.clone(),
        PathK::Arr3 => Ty::Array(Box::new(ty.clone()), 3),
        PathK::ArrayVec4 => Ty::Seq(SeqKind::ArrayVec(4), Box::new(ty.clone())),
        _ => Ty::Seq(SeqKind::Vec, Box::new(ty.clone())),
    }
}

/// Would running this input risk a genuine allocation failure (abort)? Uses the reference
/// decoder to find a declared length that the remaining input cannot encode.
#[allow(dead_code)]
pub fn absurd_length(u: &Universe, ty: &Ty, p: PathK, v: u32, payload: &[u8]) -> Option<(u64, usize)> {
    let t = elem_ty(p, ty);
    let mut c = Cur::new(payload);
    c.lenient = true;
    match u.dec(&t, v, &mut c) {
        Err(DecErr::HugeLen { declared, min_elem, .. }) => Some((declared, min_elem)),
        _ => None,
    }
}

const ALLOC_PANICS: [&str; 4] = ["capacity overflow", "Failed to allocate", "memory allocation of", "allocation size"];

/// Run one input through the library and judge the outcome.
/// Returns Ok(class) or the failure.
pub fn judge(b: &Batch, ri: usize, c: Container, p: PathK, v: u32, input: &[u8]) -> Result<&'static str, MFail> {
    let ops = &b.ops[ri];
    let ty = &b.roots[ri].ty;
    let u = &*b.uni;
    let payload: &[u8] = match c {
        Container::Bare => input,
        Container::NoSchema => {
            if input.len() >= HEADER_LEN {
                &input[HEADER_LEN..]
            } else {
                &[]
            }
        }
        _ => &[],
    };
    let file_version = match c {
        Container::Bare => v,
        _ if input.len() >= 15 => u32::from_le_bytes(input[11..15].try_into().unwrap()),
        _ => v,
    };
    // ---- pre-screen with the reference decoder (see DESIGN.md §2.4): find a declared length
    // that the remaining input cannot encode
    let mut absurd: Option<(u64, usize)> = None;
    let mut unknown = false; // the reference decoder has no expectation for this type
    let mut payload: &[u8] = payload;
    let legacy_format = c == Container::Plain && input.len() >= 11 && input[9..11] != [2, 0];
    if legacy_format {
        // header of an older library format (different header and schema grammar): the
        // reference pre-screen has no expectation for what follows
        payload = &[];
        unknown = true;
    } else if c == Container::Plain && input.len() > HEADER_LEN {
        match vcore::rschema::parse_schema(&input[HEADER_LEN..], 2) {
            Ok((_, used)) => payload = &input[HEADER_LEN + used..],
            Err(e) => {
                if e.starts_with("count ") {
                    // absurd count / string length inside the schema section
                    return Ok("skipped_absurd_length_would_exhaust_memory");
                }
                payload = &[];
                unknown = true;
            }
        }
    }
    if matches!(c, Container::Bare | Container::NoSchema | Container::Plain) && file_version <= u.version && !unknown {
        let t = elem_ty(p, ty);
        let mut cur = Cur::new(payload);
        cur.lenient = true;
        match u.dec(&t, file_version, &mut cur) {
            Err(DecErr::HugeLen { declared, min_elem, .. }) => cur.huge.push((declared, 0, min_elem)),
            Err(DecErr::NoExp(_)) => unknown = true,
            _ => {}
        }
        // every declared length along the way that the input cannot encode; one that would
        // exhaust memory or time decides (see below)
        let exhausting = |(n, _, m): &(u64, usize, usize)| *n >= (1 << 22) && (*m == 0 || (*n as u128) * (*m as u128) < (1u128 << 63));
        absurd = cur.huge.iter().find(|h| exhausting(h)).or(cur.huge.first()).map(|(n, _, m)| (*n, *m));
    } else {
        unknown = true;
    }
    if let Some((n, min_elem)) = absurd {
        // Declared lengths that would exhaust memory (allocation failure aborts the process) or
        // time (zero-width elements are produced without reading input) are excepted by the
        // property: skipped and counted. Lengths whose byte size exceeds isize::MAX are kept —
        // there the size computation overflows / `capacity overflow` panics before allocating.
        let bytes = (n as u128) * (min_elem as u128);
        if n >= (1 << 22) && (min_elem == 0 || bytes < (1u128 << 63)) {
            return Ok("skipped_absurd_length_would_exhaust_memory");
        }
    }
    let r = ops.read_slice(c, p, if c == Container::Bare { v } else { u.version }, input);
    let ex = json!({"container": format!("{:?}", c), "path": format!("{:?}", p), "version": v, "input": hcore::runner::hex_full(&input[..input.len().min(1 << 20)])});
    match r {
        Out::Err(_) => Ok("err"),
        Out::Panic(m) => {
            if ALLOC_PANICS.iter().any(|a| m.contains(a)) && (absurd.is_some() || unknown) {
                return Ok("oom_excepted");
            }
            let kind = if m.contains("capacity overflow") {
                "allocation"
            } else if m.contains("overflow") {
                "arithmetic_overflow"
            } else if m.contains("Unexpected trait name") {
                "trait_name"
            } else if ALLOC_PANICS.iter().any(|a| m.contains(a)) {
                "allocation"
            } else {
                "other"
            };
            let mut ex = ex;
            ex["panic_kind"] = json!(kind);
            Err(MFail { check: "malformed_input_panic".into(), detail: format!("load of {} crafted bytes panicked: {}", input.len(), m.chars().take(200).collect::<String>()), extra: ex })
        }
        Out::Ok((vals, _)) => {
            let mut path = vec![];
            for x in &vals {
                if let Err(e) = check_value(u, ty, file_version.min(u.version), x, input.len(), &mut path) {
                    let root_copy = raw_copy_shape(u, ty);
                    // a type that reports itself bulk-copyable at this version is read with one raw
                    // copy (alone and inside sequences/arrays), whether or not it is `Copy`
                    let via_bulk = e.contains("[bulk]") || (p != PathK::Single && root_copy) || ops.packed(file_version.min(u.version));
                    let kind = if e.contains("in-memory discriminant") {
                        "invalid_enum"
                    } else if e.starts_with("bool") {
                        "invalid_bool"
                    } else if e.starts_with("char") {
                        "invalid_char"
                    } else if e.contains("elements") || e.contains("entries") {
                        "oversized_collection"
                    } else {
                        "other"
                    };
                    let mut ex = ex;
                    ex["invalid_kind"] = json!(kind);
                    ex["via_bulk_copy"] = json!(via_bulk.to_string());
                    return Err(MFail { check: "malformed_input_invalid_value".into(), detail: e, extra: ex });
                }
            }
            if matches!(p, PathK::Vec | PathK::BoxSlice | PathK::ArcSlice | PathK::Slice) {
                let m = u.min_wire(ty, file_version.min(u.version));
                if m > 0 && vals.len().saturating_mul(m) > input.len() {
                    let mut ex = ex;
                    ex["invalid_kind"] = json!("oversized_collection");
                    return Err(MFail { check: "malformed_input_invalid_value".into(), detail: format!("vector with {} elements returned from {} input bytes", vals.len(), input.len()), extra: ex });
                }
            }
            Ok("ok")
        }
    }
}
