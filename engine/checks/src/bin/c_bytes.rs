//! C07 truncation (crash points), C08 I/O faults and chunking, C14 encrypted-file integrity.
//! Values come from the generated data batches (gen_data); cut offsets / fault offsets / byte
//! modifications are enumerated exhaustively for files up to 4 kB and boundary-focused +
//! strided above.

use checks::cryptoframe::*;
use checks::data::*;
use hcore::faultio::*;
use hcore::ops::*;
use hcore::runner::*;
use proptest::prelude::*;
use proptest::test_runner::{Config, RngSeed, TestCaseError, TestError, TestRunner};
use serde_json::{json, Value};
use std::cell::RefCell;
use std::collections::BTreeMap;
use std::io::ErrorKind;
use std::time::Instant;
use vcore::dv::DV;
use vcore::ir::*;
use vcore::strat::{strategy, Opts};

static EXHAUSTIVE: std::sync::atomic::AtomicUsize = std::sync::atomic::AtomicUsize::new(4096);
fn exhaustive_limit() -> usize {
    EXHAUSTIVE.load(std::sync::atomic::Ordering::Relaxed)
}
const PASSWORD: &str = "correct horse battery";

struct BFail {
    check: String,
    detail: String,
    extra: Value,
}
fn bf(check: &str, detail: String, extra: Value) -> BFail {
    BFail { check: check.into(), detail, extra }
}

fn tmp_path(tag: &str) -> std::path::PathBuf {
    let mut p = std::env::temp_dir();
    p.push(format!("savefile-verif-{}-{}-{}", std::process::id(), tag, std::thread::current().name().unwrap_or("t").len()));
    p
}

/// offsets to try for a buffer of `len` bytes: all if small, else boundaries + stride
fn offsets(len: usize, boundaries: &[usize], budget: usize) -> (Vec<usize>, bool) {
    if len <= exhaustive_limit() {
        return ((0..len).collect(), true);
    }
    let mut v: Vec<usize> = vec![];
    for b in boundaries.iter().chain([0usize, 16, len].iter()) {
        let lo = b.saturating_sub(40);
        let hi = (b + 40).min(len);
        v.extend(lo..hi);
    }
    let stride = (len / budget.max(1)).max(1);
    v.extend((0..len).step_by(stride));
    v.sort();
    v.dedup();
    v.retain(|x| *x < len);
    (v, false)
}

/// boundaries (+-6 bytes) plus a stride, regardless of the exhaustive limit (file based cases)
fn offsets_strided(len: usize, boundaries: &[usize], budget: usize) -> (Vec<usize>, bool) {
    let mut v: Vec<usize> = vec![];
    for b in boundaries.iter().chain([0usize, 12, len].iter()) {
        v.extend(b.saturating_sub(6)..(b + 6).min(len));
    }
    let stride = (len / budget.max(1)).max(1);
    v.extend((0..len).step_by(stride));
    v.sort();
    v.dedup();
    v.retain(|x| *x < len);
    (v, false)
}

fn frame_boundaries(bytes: &[u8]) -> Vec<usize> {
    match parse_frames(bytes) {
        Some(f) => {
            let mut v = vec![12];
            for (off, c) in &f.chunks {
                v.push(*off);
                v.push(off + 8);
                v.push(off + 8 + c.len());
            }
            v
        }
        None => vec![],
    }
}

// =============================================================================== C07

fn c07_case(b: &Batch, ri: usize, x: &DV, st: &mut Stats, counting: bool, with_file: bool) -> Result<(), BFail> {
    let ops = &b.ops[ri];
    let ty = &b.roots[ri].ty;
    let u = &*b.uni;
    let cur = u.version;
    let x = ops.normalize(x);
    let want = match u.after_reload(ty, cur, &x) {
        Ok(m) => u.canon(ty, &ops.normalize(&m)),
        Err(_) => return Ok(()),
    };
    for c in [Container::Plain, Container::NoSchema, Container::Compressed, Container::CryptoMem] {
        let bytes = match ops.write_vec(c, PathK::Single, cur, &[x.clone()]) {
            Out::Ok(bts) => bts,
            o => return Err(bf("save_failed", o.describe(), json!({"container": format!("{:?}", c)}))),
        };
        let bounds = if c == Container::CryptoMem { frame_boundaries(&bytes) } else { vec![] };
        let (cuts, exhaustive) = offsets(bytes.len(), &bounds, 3000);
        for k in cuts {
            let r = ops.read_slice(c, PathK::Single, cur, &bytes[..k]);
            if counting {
                st.evaluations += 1;
            }
            let ex = json!({"container": format!("{:?}", c), "cut": k, "len": bytes.len()});
            match r {
                Out::Err(_) => {}
                Out::Ok((got, _)) => {
                    if u.canon(ty, &got[0]) != want {
                        return Err(bf("truncated_file_loaded_as_different_value", format!("prefix of {} of {} bytes loaded as {} instead of {}", k, bytes.len(), got[0].render(), x.render()), ex));
                    }
                    if counting {
                        st.class(&format!("{:?}.ok_equal_value_on_prefix", c));
                    }
                }
                Out::Panic(m) => return Err(bf("truncated_file_panic", format!("loading a {}-byte prefix of a {}-byte file panicked: {}", k, bytes.len(), m), ex)),
            }
            if counting && k >= 9 {
                st.nontrivial.insert(vcore::rng::fnv64(format!("{}/{}/{:?}/{}/{}", b.name, ri, c, k, bytes.len()).as_bytes()));
            }
        }
        if counting {
            st.class(&format!("{:?}.{}", c, if exhaustive { "all_cuts" } else { "boundary_and_strided_cuts" }));
            if st.samples.len() < 2 && bytes.len() > 30 {
                st.sample(json!({"type": ops.type_name(), "container": format!("{:?}", c), "file_len": bytes.len(), "cuts_tried": if exhaustive { bytes.len() } else { 0 }, "value": x.render()}));
            }
        }
    }
    if with_file {
        // encrypted file on disk
        let path = tmp_path("c07");
        if let Out::Ok(()) = write_encrypted_file(&**ops, PathK::Single, cur, &[x.clone()], &path, PASSWORD) {
            let bytes = std::fs::read(&path).unwrap_or_default();
            let (cuts, _) = offsets(bytes.len(), &frame_boundaries(&bytes), 400);
            for k in cuts {
                std::fs::write(&path, &bytes[..k]).unwrap();
                let r = read_encrypted_file(&**ops, PathK::Single, cur, &path, PASSWORD);
                if counting {
                    st.evaluations += 1;
                }
                let ex = json!({"container": "EncryptedFile", "cut": k, "len": bytes.len()});
                match r {
                    Out::Err(_) => {}
                    Out::Ok(got) => {
                        if u.canon(ty, &got[0]) != want {
                            let _ = std::fs::remove_file(&path);
                            return Err(bf("truncated_file_loaded_as_different_value", format!("encrypted file cut at {} loaded as {}", k, got[0].render()), ex));
                        }
                    }
                    Out::Panic(m) => {
                        let _ = std::fs::remove_file(&path);
                        return Err(bf("truncated_encrypted_file_panic", format!("load_encrypted_file on a {}-byte prefix panicked: {}", k, m.chars().take(120).collect::<String>()), json!({"container": "EncryptedFile", "cut_below_12": k < 12, "cut": k, "len": bytes.len()})));
                    }
                }
                if counting {
                    st.nontrivial.insert(vcore::rng::fnv64(format!("{}/{}/file/{}/{}", b.name, ri, k, bytes.len()).as_bytes()));
                }
            }
            if counting {
                st.class("EncryptedFile.cuts");
            }
        }
        let _ = std::fs::remove_file(&path);
    }
    Ok(())
}

// =============================================================================== C14

fn c14_case(b: &Batch, ri: usize, x: &DV, extra_byte: u8, st: &mut Stats, counting: bool, with_file: bool) -> Result<(), BFail> {
    let ops = &b.ops[ri];
    let ty = &b.roots[ri].ty;
    let u = &*b.uni;
    let cur = u.version;
    let x = ops.normalize(x);
    let want = match u.after_reload(ty, cur, &x) {
        Ok(m) => u.canon(ty, &ops.normalize(&m)),
        Err(_) => return Ok(()),
    };
    let key = KEY;
    // (a) in-memory stream with several chunks, (b) the file API
    let mut streams: Vec<(&str, Vec<u8>)> = vec![];
    let mut buf = vec![];
    if let Out::Ok(()) = write_crypto_chunked(&**ops, PathK::Single, cur, &[x.clone()], &mut buf, 67, key) {
        streams.push(("stream_chunked", buf));
    }
    if x.leaf_count() > 50_000 {
        // no explicit flushes: the writer emits its natural full-size chunks (a frame whose
        // length field holds the maximum is a boundary value for the reader's length checks)
        let mut buf = vec![];
        if let Out::Ok(()) = write_crypto_chunked(&**ops, PathK::Single, cur, &[x.clone()], &mut buf, 1 << 30, key) {
            streams.push(("stream_natural", buf));
        }
    }
    let path = tmp_path("c14");
    let file_ok = with_file && matches!(write_encrypted_file(&**ops, PathK::Single, cur, &[x.clone()], &path, PASSWORD), Out::Ok(()));
    if file_ok {
        streams.push(("file", std::fs::read(&path).unwrap_or_default()));
    }
    let load = |kind: &str, data: &[u8], pw: &str, k: [u8; 32]| -> Out<Vec<DV>> {
        if kind == "file" {
            std::fs::write(&path, data).unwrap();
            read_encrypted_file(&**ops, PathK::Single, cur, &path, pw)
        } else {
            let mut r: &[u8] = data;
            read_crypto(&**ops, PathK::Single, cur, &mut r, k)
        }
    };
    let res = (|| -> Result<(), BFail> {
        for (kind, good) in &streams {
            // sanity: intact + right key loads the value (two-directional oracle)
            match load(kind, good, PASSWORD, key) {
                Out::Ok(g) if u.canon(ty, &g[0]) == want => {}
                o => return Err(bf("intact_encrypted_data_not_loaded", format!("{}: {}", kind, o.describe()), json!({"kind": kind}))),
            }
            let frames = parse_frames(good).ok_or_else(|| bf("reference_frame_parser_failed", "cannot parse frames".into(), json!({})))?;
            if frames.tail.len() != 0 {
                return Err(bf("reference_frame_parser_failed", "trailing bytes after last chunk".into(), json!({})));
            }
            let check_rejected = |what: String, class: &str, data: &[u8], pw: &str, k: [u8; 32], st: &mut Stats| -> Result<(), BFail> {
                let r = load(kind, data, pw, k);
                if counting {
                    st.evaluations += 1;
                    st.class(&format!("{}.{}", kind, class));
                }
                let ex = json!({"kind": kind, "modification": what, "class": class, "len": good.len(), "below_12_bytes": data.len() < 12});
                match r {
                    Out::Err(_) => Ok(()),
                    Out::Ok(g) => Err(bf("modified_encrypted_data_accepted", format!("{}: {} -> Ok({})", kind, what, g[0].render()), ex)),
                    Out::Panic(m) => Err(bf("modified_encrypted_data_panic", format!("{}: {} -> panic {}", kind, what, m.chars().take(120).collect::<String>()), ex)),
                }
            };
            // every byte position x {^1, ^0x80, ^0xff, generated}
            let big = good.len() > 20_000;
            let budget = if big { 120 } else if *kind == "file" { 150 } else { 1500 };
            let (positions, _) = if *kind == "file" && good.len() > 200 { offsets_strided(good.len(), &frame_boundaries(good), budget) } else { offsets(good.len(), &frame_boundaries(good), budget) };
            let region = |i: usize| -> &'static str {
                if i < 12 {
                    return "nonce";
                }
                for (off, c) in &frames.chunks {
                    if i >= *off && i < off + 8 {
                        return "length";
                    }
                    if i >= off + 8 && i < off + 8 + c.len() - 16 {
                        return "ciphertext";
                    }
                    if i >= off + 8 + c.len() - 16 && i < off + 8 + c.len() {
                        return "tag";
                    }
                }
                "other"
            };
            for i in positions {
                let mut flips = vec![1u8, 0x80, 0xff];
                if extra_byte != 0 && !flips.contains(&extra_byte) {
                    flips.push(extra_byte);
                }
                // all 255 replacement values on the nonce and on the length fields of the first and last chunk
                let first_last = frames.chunks.first().map_or(false, |c| i >= c.0 && i < c.0 + 8) || frames.chunks.last().map_or(false, |c| i >= c.0 && i < c.0 + 8);
                let all = (region(i) == "nonce" || (region(i) == "length" && first_last)) && *kind != "file" && (!big || (*kind == "stream_natural" && region(i) == "length"));
                if big {
                    flips.truncate(1);
                }
                let deltas: Vec<u8> = if all { (1..=255u8).collect() } else { flips };
                for d in deltas {
                    let mut m = good.clone();
                    m[i] ^= d;
                    check_rejected(format!("byte {} ^= {:#x}", i, d), region(i), &m, PASSWORD, key, st)?;
                    if counting {
                        st.nontrivial.insert(vcore::rng::fnv64(format!("{}/{}/{}/{}/{}", b.name, ri, kind, i, d).as_bytes()));
                    }
                }
            }
            // every truncation length
            let (cuts, _) = if *kind == "file" && good.len() > 200 { offsets_strided(good.len(), &frame_boundaries(good), budget) } else { offsets(good.len(), &frame_boundaries(good), budget) };
            for k in cuts {
                check_rejected(format!("truncated to {} bytes", k), "truncation", &good[..k], PASSWORD, key, st)?;
            }
            // whole-chunk deletion / duplication / reorder
            let n = frames.chunks.len();
            if n >= 1 {
                for del in 0..n {
                    let order: Vec<usize> = (0..n).filter(|i| *i != del).collect();
                    check_rejected(format!("chunk {} of {} deleted", del, n), "chunk_deleted", &rebuild(&frames, &order), PASSWORD, key, st)?;
                }
                for dup in 0..n {
                    if dup == n - 1 {
                        // a copy of the final chunk after the end is data the reader never requests
                        // (equivalent to appending bytes to the file); counted, not asserted
                        if counting {
                            *st.excluded.entry("append_after_logical_end".into()).or_insert(0) += 1;
                        }
                        continue;
                    }
                    let mut order: Vec<usize> = (0..n).collect();
                    order.insert(dup, dup);
                    check_rejected(format!("chunk {} duplicated", dup), "chunk_duplicated", &rebuild(&frames, &order), PASSWORD, key, st)?;
                }
                for s in 0..n.saturating_sub(1) {
                    let mut order: Vec<usize> = (0..n).collect();
                    order.swap(s, s + 1);
                    check_rejected(format!("chunks {} and {} swapped", s, s + 1), "chunk_reordered", &rebuild(&frames, &order), PASSWORD, key, st)?;
                }
            }
            // wrong passwords / keys
            if *kind == "file" {
                for pw in ["", "correct horse batter", "correct horse battery ", " correct horse battery", "Correct horse battery", "correct horse battery\u{0}", "correct\u{a0}horse battery", "correct horse batterу",
                    // what reading a password from a terminal or a file tends to add, and near misses a
                    // normalising key derivation could conflate
                    "correct horse battery\n", "correct horse battery\r\n", "correct horse battery\r", "\ncorrect horse battery", "correct horse battery\t", "correct  horse battery", "CORRECT HORSE BATTERY", "correct horse batteryy", "correcthorsebattery",
                ] {
                    check_rejected(format!("password {:?}", pw), "wrong_password", good, pw, key, st)?;
                }
            } else {
                for bit in [0usize, 7, 100, 255] {
                    let mut k2 = key;
                    k2[bit / 8] ^= 1 << (bit % 8);
                    check_rejected(format!("key bit {} flipped", bit), "wrong_key", good, PASSWORD, k2, st)?;
                }
            }
            if counting && st.samples.len() < 2 {
                st.sample(json!({"type": ops.type_name(), "kind": kind, "file_len": good.len(), "chunks": n, "value": x.render()}));
            }
        }
        Ok(())
    })();
    let _ = std::fs::remove_file(&path);
    res
}

// =============================================================================== C08

fn sched_strategy() -> BoxedStrategy<Schedule> {
    let step = prop_oneof![
        6 => (1usize..40).prop_map(Step::Chunk),
        2 => Just(Step::Chunk(1)),
        2 => Just(Step::Interrupted),
        1 => Just(Step::Chunk(100_000)),
    ];
    (proptest::collection::vec(step, 0..60), prop_oneof![Just(1usize), Just(3), Just(7), Just(64), Just(usize::MAX)])
        .prop_map(|(mut steps, tail_chunk)| {
            // never interrupt unboundedly: at most two consecutive interrupts
            let mut run = 0;
            steps.retain(|s| {
                if *s == Step::Interrupted {
                    run += 1;
                    run <= 2
                } else {
                    run = 0;
                    true
                }
            });
            Schedule { steps, tail_chunk }
        })
        .boxed()
}

fn c08_case(b: &Batch, ri: usize, x: &DV, sched: &Schedule, st: &mut Stats, counting: bool) -> Result<(), BFail> {
    let ops = &b.ops[ri];
    let ty = &b.roots[ri].ty;
    let u = &*b.uni;
    let cur = u.version;
    let x = ops.normalize(x);
    let want = match u.after_reload(ty, cur, &x) {
        Ok(m) => u.canon(ty, &ops.normalize(&m)),
        Err(_) => return Ok(()),
    };
    let unordered = u.has_unordered(ty);
    let kinds = [ErrorKind::Other, ErrorKind::BrokenPipe, ErrorKind::PermissionDenied, ErrorKind::WriteZero, ErrorKind::UnexpectedEof, ErrorKind::OutOfMemory];
    let has_short = sched.steps.iter().any(|s| matches!(s, Step::Chunk(n) if *n < 40)) || sched.tail_chunk < 64;
    let has_intr = sched.steps.iter().any(|s| *s == Step::Interrupted);
    for c in [Container::Plain, Container::Compressed, Container::CryptoMem] {
        let cname = format!("{:?}", c);
        let good = match ops.write_vec(c, PathK::Single, cur, &[x.clone()]) {
            Out::Ok(bts) => bts,
            o => return Err(bf("save_failed", o.describe(), json!({"container": cname}))),
        };
        let plaintext_of = |bytes: &[u8]| -> Result<Vec<u8>, String> {
            let f = parse_frames(bytes).ok_or("frames")?;
            decrypt(&f, &KEY)
        };
        let good_plain = if c == Container::CryptoMem { plaintext_of(&good).map_err(|e| bf("reference_decrypt_failed", e, json!({})))? } else { vec![] };
        // ---- no fault, arbitrary chunking / short writes / interrupts: same bytes
        {
            let mut w = FaultWriter::new(None, ErrorKind::Other, sched.clone());
            let r = ops.write(c, PathK::Single, cur, &[x.clone()], &mut w);
            if counting {
                st.evaluations += 1;
            }
            let ex = json!({"container": cname, "schedule_steps": sched.steps.len(), "tail_chunk": sched.tail_chunk as u64});
            match r {
                Out::Ok(()) => {}
                o => return Err(bf("save_fails_under_short_writes", format!("no fault injected, only short writes/interrupts: {}", o.describe()), ex)),
            }
            if c == Container::CryptoMem {
                match plaintext_of(&w.accepted) {
                    Ok(p) if p == good_plain || (unordered && p.len() == good_plain.len()) => {}
                    other => return Err(bf("bytes_depend_on_write_chunking", format!("encrypted stream written under a short-write schedule decrypts to {:?}", other.map(|p| p.len())), ex)),
                }
            } else if !unordered && w.accepted != good {
                return Err(bf("bytes_depend_on_write_chunking", format!("{} bytes under schedule vs {} fault-free", w.accepted.len(), good.len()), ex));
            }
            // reader chunking: same result as one-buffer load
            let mut r = FaultReader::new(&good, None, ErrorKind::Other, sched.clone());
            let got = ops.read(c, PathK::Single, cur, &mut r);
            if counting {
                st.evaluations += 1;
            }
            match got {
                Out::Ok(g) if u.canon(ty, &g[0]) == want => {}
                o => {
                    return Err(bf(
                        "load_depends_on_read_chunking",
                        format!("intact data read through a chunking schedule (interrupts: {}) gives {}", has_intr, o.describe()),
                        json!({"container": cname, "has_interrupts": has_intr, "has_short_reads": has_short}),
                    ))
                }
            }
            if counting && (has_short || has_intr) {
                st.nontrivial.insert(vcore::rng::fnv64(format!("{}/{}/{}/sched/{:?}/{}", b.name, ri, cname, sched.steps, sched.tail_chunk).as_bytes()));
                st.class(&format!("{}.chunking_schedule", cname));
            }
        }
        // ---- flush failure
        {
            let mut w = FaultWriter::new(None, ErrorKind::Other, Schedule::whole());
            w.flush_fails = true;
            let r = ops.write(c, PathK::Single, cur, &[x.clone()], &mut w);
            if counting {
                st.evaluations += 1;
            }
            match r {
                Out::Err(_) => {}
                Out::Ok(()) => return Err(bf("flush_failure_reported_as_success", "writer.flush() failed but save returned Ok".into(), json!({"container": cname}))),
                Out::Panic(m) => return Err(bf("write_fault_panic", format!("flush failure: {}", m.chars().take(100).collect::<String>()), json!({"container": cname, "fault": "flush"}))),
            }
        }
        // ---- writer fault at every offset
        let (ks, _) = offsets(good.len(), &frame_boundaries(&good), 600);
        for (n, k) in ks.iter().enumerate() {
            let kind = kinds[n % kinds.len()];
            let mut w = FaultWriter::new(Some(*k), kind, if n % 3 == 0 { sched.clone() } else { Schedule::whole() });
            let r = ops.write(c, PathK::Single, cur, &[x.clone()], &mut w);
            if counting {
                st.evaluations += 1;
            }
            let ex = json!({"container": cname, "fail_at": k, "len": good.len(), "kind": format!("{:?}", kind)});
            match r {
                Out::Err(_) => {}
                Out::Ok(()) => {
                    // (for hash containers the length of this particular save may be below k)
                    if w.failed {
                        return Err(bf("write_fault_reported_as_success", format!("writer failed at byte {} of {} but save returned Ok", k, good.len()), ex));
                    }
                }
                Out::Panic(m) => return Err(bf("write_fault_panic", format!("writer failed at byte {}: panic {}", k, m.chars().take(100).collect::<String>()), json!({"container": cname, "fault": "write"}))),
            }
            if c == Container::CryptoMem {
                // accepted bytes: nonce + whole chunks decrypting to a prefix of the fault-free plaintext
                if let Some(f) = parse_frames(&w.accepted) {
                    match decrypt(&f, &KEY) {
                        Ok(p) if good_plain.starts_with(&p) || (unordered && p.len() <= good_plain.len()) => {}
                        other => return Err(bf("accepted_bytes_not_a_prefix", format!("encrypted bytes accepted before the fault decrypt to {:?}", other.map(|p| p.len())), ex)),
                    }
                }
            } else if !unordered && !good.starts_with(&w.accepted) {
                return Err(bf("accepted_bytes_not_a_prefix", format!("{} bytes accepted before the fault are not a prefix of the fault-free output", w.accepted.len()), ex));
            }
            if counting && *k >= 16 {
                st.nontrivial.insert(vcore::rng::fnv64(format!("{}/{}/{}/w/{}", b.name, ri, cname, k).as_bytes()));
            }
        }
        // ---- reader fault at every offset that a fault-free load reaches
        let consumed = {
            let mut r = FaultReader::new(&good, None, ErrorKind::Other, Schedule::whole());
            let _ = ops.read(c, PathK::Single, cur, &mut r);
            r.off
        };
        let (ks, _) = offsets(consumed, &frame_boundaries(&good), 600);
        for (n, k) in ks.iter().enumerate() {
            let kind = kinds[n % kinds.len()];
            let mut r = FaultReader::new(&good, Some(*k), kind, if n % 3 == 0 { sched.clone() } else { Schedule::whole() });
            let got = ops.read(c, PathK::Single, cur, &mut r);
            if counting {
                st.evaluations += 1;
            }
            let ex = json!({"container": cname, "fail_at": k, "consumed_fault_free": consumed, "kind": format!("{:?}", kind)});
            match got {
                Out::Err(_) => {}
                Out::Ok(g) => {
                    // bzip2 may have everything it needs before the fault offset is reached
                    if r.fault_hit {
                        return Err(bf("read_fault_reported_as_success", format!("reader failed at byte {} but load returned Ok({})", k, g[0].render()), ex));
                    }
                }
                Out::Panic(m) => return Err(bf("read_fault_panic", format!("reader failed at byte {}: panic {}", k, m.chars().take(100).collect::<String>()), ex)),
            }
            if counting && *k >= 16 {
                st.nontrivial.insert(vcore::rng::fnv64(format!("{}/{}/{}/r/{}", b.name, ri, cname, k).as_bytes()));
            }
        }
        if counting {
            st.class(&format!("{}.fault_offsets", cname));
            if st.samples.len() < 2 {
                st.sample(json!({"type": ops.type_name(), "container": cname, "file_len": good.len(), "write_fault_offsets": good.len().min(exhaustive_limit()), "read_fault_offsets": consumed, "schedule": format!("{:?}", sched.steps.iter().take(12).collect::<Vec<_>>()), "value": x.render()}));
            }
        }
    }
    Ok(())
}

// =============================================================================== driver

fn big_u8_values() -> Vec<DV> {
    // encodings around the 100 000-byte encryption block
    [100_010usize, 99_950, 200_030, 250_000]
        .iter()
        .map(|n| DV::L((0..*n).map(|i| DV::N(((i * 31 + 7) % 251) as u128)).collect()))
        .collect()
}

fn run_root(args: &Args, b: &Batch, ri: usize, st: &mut Stats) {
    let prop = args.prop.clone();
    let thorough = args.tier == "thorough";
    let root = &b.roots[ri];
    let is_vec_u8 = root.ty == Ty::Seq(SeqKind::Vec, Box::new(Ty::Prim(Prim::U8)));
    let cases: u32 = match (prop.as_str(), thorough) {
        ("C07", false) => 2,
        ("C07", true) => 12,
        ("C14", false) => 1,
        ("C14", true) => 6,
        ("C08", false) => 1,
        (_, _) => 10,
    };
    let seed = vcore::rng::fnv64(format!("{}/{}/{}/{}", args.seed, prop, b.name, ri).as_bytes());
    let strat = (strategy(&b.uni, &root.ty, Opts { max_len: 4, budget: 3, variants_at: None }), sched_strategy(), any::<u8>());
    let mut runner = TestRunner::new(Config { cases, rng_seed: RngSeed::Fixed(seed), failure_persistence: None, max_shrink_iters: 60, ..Config::default() });
    let cell = RefCell::new((std::mem::take(st), false));
    let with_file = ri % 4 == 0 || thorough;
    // quick tier: a fixed subset of the roots (every root in the thorough tier)
    let h = vcore::rng::fnv64(b.uni.rust_ty(&root.ty, "").as_bytes());
    let selected = thorough || is_vec_u8 || root.ty == Ty::Seq(SeqKind::Vec, Box::new(Ty::Prim(Prim::Usize))) || match prop.as_str() {
        "C14" => h % 10 == 0,
        "C08" => h % 3 == 0,
        _ => true,
    };
    if !selected {
        st.class("root_not_in_quick_subset");
        return;
    }
    let run = |x: &DV, sched: &Schedule, eb: u8, s: &mut Stats, counting: bool| -> Result<(), BFail> {
        match prop.as_str() {
            "C07" => c07_case(b, ri, x, s, counting, with_file),
            "C14" => c14_case(b, ri, x, eb, s, counting, thorough || h % 30 == 0 || (is_vec_u8 && x.leaf_count() < 20_000)),
            _ => c08_case(b, ri, x, sched, s, counting),
        }
    };
    let mut fails: Vec<(DV, Schedule, u8)> = vec![];
    let is_vec_usize = root.ty == Ty::Seq(SeqKind::Vec, Box::new(Ty::Prim(Prim::Usize)));
    if is_vec_usize && b.name == "fixed" && prop == "C08" {
        // 160 kB of items that are serialized one by one: the encrypted stream's block boundary
        // (and the writer fault behind it) falls inside the sequence
        let x = DV::L((0..20_000u128).map(|i| DV::N(i * 7919 + 13)).collect());
        let sched = Schedule { steps: vec![Step::Chunk(3), Step::Interrupted, Step::Chunk(65536)], tail_chunk: 90_000 };
        let mut g = cell.borrow_mut();
        if run(&x, &sched, 0x55, &mut g.0, true).is_err() {
            fails.push((x, sched, 0x55));
        }
    }
    if root.ty == Ty::Str && b.name == "fixed" && prop == "C07" {
        // a string longer than any small-buffer threshold, as the last thing in the file
        let x = DV::S((0..5000).map(|i| (b'a' + (i % 23) as u8) as char).collect());
        let mut g = cell.borrow_mut();
        let sched = Schedule::whole();
        if run(&x, &sched, 0x55, &mut g.0, true).is_err() {
            fails.push((x, sched, 0x55));
        }
    }
    if is_vec_u8 && b.name == "fixed" {
        // multi-chunk encrypted streams
        for x in big_u8_values().into_iter().take(if thorough { 4 } else if prop == "C14" { 1 } else { 2 }) {
            let sched = Schedule { steps: vec![Step::Chunk(1), Step::Interrupted, Step::Chunk(65536)], tail_chunk: 70_000 };
            let mut g = cell.borrow_mut();
            if run(&x, &sched, 0x55, &mut g.0, true).is_err() {
                fails.push((x, sched, 0x55));
                break;
            }
        }
    }
    let res = if !fails.is_empty() {
        Ok(())
    } else {
        runner.run(&strat, |(x, sched, eb)| {
            let mut g = cell.borrow_mut();
            let counting = !g.1;
            match run(&x, &sched, eb, &mut g.0, counting) {
                Ok(()) => Ok(()),
                Err(f) => {
                    g.1 = true;
                    Err(TestCaseError::fail(f.check))
                }
            }
        })
    };
    let (mut s, _) = cell.into_inner();
    if let Err(TestError::Fail(_, t)) = &res {
        fails.push(t.clone());
    }
    if let Err(TestError::Abort(r)) = &res {
        s.inconclusive.push(format!("proptest abort: {}", r));
    }
    for (x, sched, eb) in fails {
        let mut scratch = Stats::default();
        match run(&x, &sched, eb, &mut scratch, false) {
            Err(f) => {
                let mut signature = BTreeMap::new();
                signature.insert("check".to_string(), f.check.clone());
                for k in ["container", "kind", "class", "fault", "below_12_bytes", "cut_below_12", "has_interrupts"] {
                    if let Some(v) = f.extra.get(k) {
                        signature.insert(k.to_string(), v.as_str().map(|s| s.to_string()).unwrap_or_else(|| v.to_string()));
                    }
                }
                for fl in checks::data::reach_flags(&b.uni, &root.ty) {
                    signature.insert(format!("reaches_{}", fl), "true".into());
                }
                let xs = if x.leaf_count() > 2000 { json!({"vec_u8_len": x.l().len()}) } else { json!(x) };
                let replay = json!({
                    "kind": "bytes_case", "property": prop, "batch": b.name, "root_index": ri, "root_ty_ir": root.ty, "root_type": b.uni.rust_ty(&root.ty, ""),
                    "value": xs, "schedule_steps": format!("{:?}", sched.steps), "tail_chunk": sched.tail_chunk as u64, "extra_byte": eb,
                    "failed_check": f.check, "detail": f.detail, "extra": f.extra,
                });
                s.violations.push(Violation { signature, replay });
            }
            Ok(()) => s.inconclusive.push(format!("failure for root {} did not reproduce", ri)),
        }
    }
    *st = s;
}

fn parse_sched(s: &str, tail: u64) -> Schedule {
    // "[Chunk(3), Interrupted, ...]"
    let mut steps = vec![];
    for tok in s.trim_matches(|c| c == '[' || c == ']').split(", ") {
        if tok.starts_with("Chunk(") {
            if let Ok(n) = tok[6..tok.len() - 1].parse::<usize>() {
                steps.push(Step::Chunk(n));
            }
        } else if tok == "Interrupted" {
            steps.push(Step::Interrupted);
        }
    }
    Schedule { steps, tail_chunk: tail as usize }
}

fn main() {
    let started = Instant::now();
    let args = parse_args();
    quiet_panics();
    EXHAUSTIVE.store(if args.tier == "thorough" { 4096 } else { 768 }, std::sync::atomic::Ordering::Relaxed);
    let batches = load_batches();
    if let Some(path) = &args.replay {
        let body: Value = match std::fs::read_to_string(path).ok().and_then(|s| serde_json::from_str(&s).ok()) {
            Some(v) => v,
            None => std::process::exit(2),
        };
        let case = &body["case"];
        let prop = body["property"].as_str().unwrap_or(&args.prop).to_string();
        let b = match batches.iter().find(|b| b.name == case["batch"].as_str().unwrap_or("")) {
            Some(b) => b,
            None => std::process::exit(2),
        };
        let ri = case["root_index"].as_u64().unwrap_or(0) as usize;
        let want_ty: Ty = serde_json::from_value(case["root_ty_ir"].clone()).unwrap();
        if ri >= b.roots.len() || b.roots[ri].ty != want_ty {
            eprintln!("replay: regenerated batch differs");
            std::process::exit(2);
        }
        let x: DV = if let Some(n) = case["value"].get("vec_u8_len").and_then(|v| v.as_u64()) {
            DV::L((0..n as usize).map(|i| DV::N(((i * 31 + 7) % 251) as u128)).collect())
        } else {
            serde_json::from_value(case["value"].clone()).unwrap()
        };
        let sched = parse_sched(case["schedule_steps"].as_str().unwrap_or("[]"), case["tail_chunk"].as_u64().unwrap_or(u64::MAX));
        let eb = case["extra_byte"].as_u64().unwrap_or(0) as u8;
        let mut st = Stats::default();
        let r = match prop.as_str() {
            "C07" => c07_case(b, ri, &x, &mut st, false, true),
            "C14" => c14_case(b, ri, &x, eb, &mut st, false, true),
            _ => c08_case(b, ri, &x, &sched, &mut st, false),
        };
        match r {
            Ok(()) => {
                println!("replay {}: case passes", path);
                std::process::exit(0)
            }
            Err(f) => {
                println!("replay {}: still fails: [{}] {}", path, f.check, f.detail);
                println!("VIOLATION property={} replay={}", prop, path);
                std::process::exit(1)
            }
        }
    }
    if args.worker.is_some() {
        let mut shard = Shard::new(&args);
        for b in &batches {
            for ri in 0..b.roots.len() {
                if !shard.take(&format!("{}:{}:{}", b.name, ri, b.ops[ri].type_name())) {
                    continue;
                }
                let mut st = Stats::default();
                run_root(&args, b, ri, &mut st);
                worker_emit(&st);
            }
        }
        shard.done();
        return;
    }
    let nworkers = std::thread::available_parallelism().map(|n| n.get()).unwrap_or(8).min(16);
    let mut stats = run_workers(&args, nworkers, &[]);
    let nroots: usize = batches.iter().map(|b| b.roots.len()).sum();
    stats.notes.push(format!("{} root types from 2 generated batches; offsets enumerated exhaustively for files <= {} bytes", nroots, exhaustive_limit()));
    let (rule, level): (&str, &str) = match args.prop.as_str() {
        "C07" => ("case = (generated value, container {plain, noschema, bzip2, encrypted stream, encrypted file}, cut offset k): every k in 0..len for files <= 4 kB, otherwise every offset within 40 bytes of a frame boundary plus a stride; oracle: load(bytes[..k]) is Err, or Ok(v) with v == original; never another value, never a panic; non-trivial = cut at k >= 9 (inside framing or payload); distinct by (root, container, k, len)", "fault_enumeration"),
        "C14" => ("case = (generated value saved as a multi-chunk encrypted stream and through save_encrypted_file) x modification: every byte position x {^1,^0x80,^0xff,generated} (all 255 values on nonce and length bytes of in-memory streams), every truncation length, deletion/duplication/swap of whole chunks, wrong passwords / key bits; oracle: every modified input gives Err (never Ok, never panic), the intact input with the right password gives the value; non-trivial = modification inside nonce/length/ciphertext/tag; distinct by (root, kind, position, delta)", "fault_enumeration"),
        _ => ("case = (generated value, container {plain, bzip2, encrypted stream}, generated chunking schedule of short transfers and Interrupted errors, fault offset k and error kind): writer fault at every k < len (<= 4 kB) must give Err with accepted bytes a prefix of the fault-free output (encrypted: whole chunks decrypting to a prefix), flush failure must give Err, reader fault at every k < bytes consumed must give Err, and without fault every schedule must give identical bytes / identical loaded value; non-trivial = fault offset >= 16 or schedule with a short transfer or interrupt; distinct by (root, container, offset | schedule)", "fault_enumeration"),
    };
    let rep = Report {
        args: &args,
        level,
        rule,
        assumptions: vec!["values are sampled (generated); offsets are enumerated completely per generated file up to the stated size".into(), "encrypted framing is parsed and decrypted by an independent implementation on top of ring".into()],
        extra_coverage: json!({"root_types": nroots, "exhaustive_offsets_per_file_up_to_bytes": exhaustive_limit()}),
        exhaustive: false,
    };
    std::process::exit(finish(rep, stats, started));
}
