//! C06: malformed input is handled safely. Structure-aware mutation of valid encodings
//! (role-labelled spans from the reference encoder) + random bodies behind a valid header,
//! judged by checks::malformed::judge. The coverage-guided part lives in /verif/fuzz.

use checks::data::*;
use checks::malformed::*;
use hcore::ops::*;
use hcore::runner::*;
use proptest::prelude::*;
use proptest::test_runner::{Config, RngSeed, TestCaseError, TestError, TestRunner};
use serde_json::{json, Value};
use std::cell::RefCell;
use std::collections::BTreeMap;
use std::time::Instant;
use vcore::dv::DV;
use vcore::enc::{header, Role};
use vcore::ir::*;
use vcore::strat::{strategy, Opts};

#[derive(Clone, Debug)]
struct Mutn {
    kind: u8,
    a: u32,
    b: u64,
}

fn mutn_strategy() -> BoxedStrategy<Vec<Mutn>> {
    proptest::collection::vec((0u8..9, any::<u32>(), any::<u64>()).prop_map(|(kind, a, b)| Mutn { kind, a, b }), 1..3).boxed()
}

fn idx(a: u32, n: usize) -> usize {
    // monotone map of a generated u32 onto 0..n (shrinks towards 0)
    ((a as u64 * n as u64) >> 32) as usize
}

fn len_values(orig: u64, b: u64) -> Vec<u64> {
    vec![
        orig.wrapping_add(1),
        orig.wrapping_sub(1),
        0,
        (1 << 16) + (b % 7),
        (1u64 << 61) + (b % 5),
        (1u64 << 62) + 1,
        1u64 << 63,
        u64::MAX,
        u64::MAX / 4 + 1,
        (1u64 << 62) + (b % 1000),
        b,
    ]
}

/// Apply the mutations to `bytes` whose payload (described by `spans`, relative offsets)
/// starts at `pstart`. Returns (mutated bytes, labels).
fn apply(bytes: &[u8], pstart: usize, spans: &[(usize, usize, Role)], other: &[u8], ms: &[Mutn]) -> (Vec<u8>, Vec<String>) {
    let mut out = bytes.to_vec();
    let mut labels = vec![];
    for m in ms {
        match m.kind {
            0 | 1 | 2 if !spans.is_empty() => {
                let (s, e, role) = spans[idx(m.a, spans.len())];
                let (s, e) = (pstart + s, pstart + e);
                if e > out.len() {
                    continue;
                }
                match role {
                    Role::Len => {
                        let orig = u64::from_le_bytes(out[s..e].try_into().unwrap());
                        let vals = len_values(orig, m.b);
                        let v = vals[(m.b as usize / 11) % vals.len()];
                        out[s..e].copy_from_slice(&v.to_le_bytes());
                        labels.push(format!("len:{}->{}", orig, v));
                    }
                    Role::Tag | Role::Bool => {
                        let v = 2 + (m.b % 254) as u8;
                        out[s] = v;
                        labels.push(format!("{:?}:{}", role, v));
                    }
                    Role::Discr => {
                        let w = e - s;
                        let v: u64 = match m.b % 4 {
                            0 => 0xff,
                            1 => (m.b >> 8) % 300,
                            2 => u64::MAX,
                            _ => 3 + (m.b >> 8) % 5,
                        };
                        out[s..e].copy_from_slice(&v.to_le_bytes()[..w]);
                        labels.push(format!("discr:{}", v & ((1u128 << (8 * w)) - 1) as u64));
                    }
                    Role::Char => {
                        let v: u32 = match m.b % 5 {
                            0 => 0xD800,
                            1 => 0xDFFF,
                            2 => 0x110000,
                            3 => u32::MAX,
                            _ => 0xD800 + ((m.b >> 8) % 0x800) as u32,
                        };
                        out[s..e].copy_from_slice(&v.to_le_bytes());
                        labels.push(format!("char:{:#x}", v));
                    }
                    Role::StrData => {
                        if e > s {
                            let k = s + (m.b as usize) % (e - s);
                            out[k] = 0x80 | (m.b >> 16) as u8;
                            labels.push("strdata:non_utf8".into());
                        }
                    }
                    Role::Int | Role::Float => {
                        let bs = m.b.to_le_bytes();
                        for (i, k) in (s..e).enumerate() {
                            out[k] = bs[i % 8];
                        }
                        labels.push("num:random".into());
                    }
                }
            }
            3 => {
                if !out.is_empty() {
                    let k = idx(m.a, out.len());
                    out[k] ^= 1 + (m.b % 255) as u8;
                    labels.push(format!("flip@{}", k));
                }
            }
            4 => {
                let k = idx(m.a, out.len() + 1);
                out.truncate(k);
                labels.push(format!("truncate@{}", k));
            }
            5 => {
                // splice a piece of another valid encoding
                if !other.is_empty() {
                    let k = idx(m.a, out.len() + 1);
                    let from = (m.b as usize) % other.len();
                    let n = ((m.b >> 20) as usize % 24).min(other.len() - from);
                    let tail: Vec<u8> = out.split_off(k);
                    out.extend_from_slice(&other[from..from + n]);
                    out.extend_from_slice(&tail[tail.len().min(n)..]);
                    labels.push(format!("splice@{}+{}", k, n));
                }
            }
            6 => {
                // random body behind whatever precedes the payload
                let n = (m.a % 40) as usize;
                out.truncate(pstart.min(out.len()));
                let mut x = m.b | 1;
                for _ in 0..n {
                    x ^= x << 13;
                    x ^= x >> 7;
                    x ^= x << 17;
                    out.push(x as u8);
                }
                labels.push(format!("random_body:{}", n));
            }
            8 => {
                // small arithmetic on something that looks like a count: an 8-byte window whose
                // upper bytes are zero, optionally with the top bit set as a flag (leaf types with
                // private encodings carry such counts where the reference encoder has no spans)
                let cands: Vec<usize> = (pstart..out.len().saturating_sub(7))
                    .filter(|k| out[k + 3..k + 7].iter().all(|b| *b == 0) && (out[k + 7] == 0 || out[k + 7] == 0x80))
                    .collect();
                if !cands.is_empty() {
                    let k = cands[idx(m.a, cands.len())];
                    let orig = u64::from_le_bytes(out[k..k + 8].try_into().unwrap());
                    let flag = orig & (1 << 63);
                    let x = orig & !(1 << 63);
                    let nv = match m.b % 14 {
                        0 => x.wrapping_sub(1),
                        1 => x.wrapping_sub(2),
                        2 => x.wrapping_sub(3),
                        3 => x.wrapping_sub(4),
                        4 => x.wrapping_sub(7),
                        5 => x.wrapping_add(1),
                        6 => x.wrapping_add(2),
                        7 => x.wrapping_add(3),
                        8 => x.wrapping_add(5),
                        9 => x / 2,
                        10 => x.wrapping_mul(2),
                        11 => x.wrapping_mul(8),
                        12 => x / 8,
                        _ => x ^ 4,
                    } & !(1 << 63);
                    out[k..k + 8].copy_from_slice(&(nv | flag).to_le_bytes());
                    labels.push(format!("count@{}:{}->{}", k, x, nv));
                }
            }
            _ => {
                // a length-looking pattern somewhere in the payload
                if out.len() >= pstart + 8 {
                    let k = pstart + idx(m.a, out.len() - pstart - 7);
                    let vals = len_values(0, m.b);
                    let v = vals[(m.b as usize / 3) % vals.len()];
                    out[k..k + 8].copy_from_slice(&v.to_le_bytes());
                    labels.push(format!("u64@{}={}", k, v));
                }
            }
        }
    }
    (out, labels)
}

struct Case<'a> {
    b: &'a Batch,
    ri: usize,
}

fn one_case(cs: &Case, vals: &[DV], ms: &[Mutn], st: &mut Stats, counting: bool) -> Result<(), (MFail, Value)> {
    let b = cs.b;
    let ri = cs.ri;
    let ops = &b.ops[ri];
    let ty = &b.roots[ri].ty;
    let u = &*b.uni;
    let cur = u.version;
    let vals: Vec<DV> = vals.iter().map(|v| ops.normalize(v)).collect();
    // plans: (container, path)
    let plans = [
        (Container::Bare, PathK::Single),
        (Container::NoSchema, PathK::Single),
        (Container::Plain, PathK::Single),
        (Container::Bare, PathK::Vec),
        (Container::Bare, PathK::Arr3),
        (Container::Bare, PathK::ArrayVec4),
        (Container::NoSchema, PathK::BoxSlice),
    ];
    for (c, p) in plans {
        let input: Vec<DV> = match p {
            PathK::Single => vec![vals[0].clone()],
            _ => vals.clone(),
        };
        let good = match ops.write_vec(c, p, cur, &input) {
            Out::Ok(g) => g,
            _ => continue,
        };
        // role-labelled spans of the payload from the reference encoder (if it has an expectation)
        let pty = match p {
            PathK::Single => ty.clone(),
            PathK::Arr3 => Ty::Array(Box::new(ty.clone()), 3),
            _ => Ty::Seq(SeqKind::Vec, Box::new(ty.clone())),
        };
        let pdv = match p {
            PathK::Single => vals[0].clone(),
            _ => DV::L(vals.clone()),
        };
        let (spans, plen) = match u.enc(&pty, cur, &pdv) {
            Ok(a) => (a.spans, a.bytes.len()),
            Err(_) => (vec![], 0),
        };
        let pstart = if spans.is_empty() { if c == Container::Bare { 0 } else { 16.min(good.len()) } } else { good.len().saturating_sub(plen) };
        let other = match ops.write_vec(Container::Bare, PathK::Single, cur, &[vals[vals.len() - 1].clone()]) {
            Out::Ok(o) => o,
            _ => vec![],
        };
        let (bad, labels) = apply(&good, pstart, &spans, &other, ms);
        if bad == good {
            continue;
        }
        // the unmutated file must load (non-vacuity of the mutation)
        if counting {
            st.evaluations += 1;
        }
        if std::env::var_os("VERIF_TRACE").is_some() {
            eprintln!("TRACE {:?} {:?} {:?} {}", c, p, labels, hex_full(&bad[..bad.len().min(400)]));
        }
        match judge(b, ri, c, p, cur, &bad) {
            Ok(class) => {
                if counting {
                    st.class(&format!("outcome.{}", class));
                    for l in &labels {
                        st.class(&format!("mutation.{}", l.split(|ch| ch == ':' || ch == '@').next().unwrap_or("")));
                    }
                    let inside_payload = bad.len() >= pstart;
                    if inside_payload {
                        st.nontrivial.insert(vcore::rng::fnv64(format!("{}/{}/{:?}/{:?}/{}", b.name, ri, c, p, hex_full(&bad)).as_bytes()));
                    }
                    if st.samples.len() < 3 && !spans.is_empty() && class != "ok" {
                        st.sample(json!({"type": ops.type_name(), "container": format!("{:?}", c), "path": format!("{:?}", p), "mutations": labels, "valid": hex(&good), "mutated": hex(&bad), "outcome": class}));
                    }
                }
            }
            Err(f) => {
                let info = json!({"mutations": labels, "valid": hex_full(&good[..good.len().min(2048)])});
                return Err((f, info));
            }
        }
    }
    Ok(())
}

fn run_root(args: &Args, b: &Batch, ri: usize, st: &mut Stats, skip_cases: u64) {
    let thorough = args.tier == "thorough";
    let root = &b.roots[ri];
    let cases = if thorough { 4000 } else { 150 };
    let seed = vcore::rng::fnv64(format!("{}/C06/{}/{}", args.seed, b.name, ri).as_bytes());
    let vstrat = proptest::collection::vec(strategy(&b.uni, &root.ty, Opts { max_len: 4, budget: 3, variants_at: None }), 3..=3);
    let strat = (vstrat, mutn_strategy());
    let mut runner = TestRunner::new(Config { cases, rng_seed: RngSeed::Fixed(seed), failure_persistence: None, max_shrink_iters: 300, ..Config::default() });
    let cell = RefCell::new((std::mem::take(st), false));
    let cs = Case { b, ri };
    let case_no = std::cell::Cell::new(0u64);
    let last_fail: RefCell<Option<(MFail, Value)>> = RefCell::new(None);
    let res = runner.run(&strat, |(vals, ms)| {
        let k = case_no.get();
        case_no.set(k + 1);
        if k < skip_cases {
            // resuming inside this unit after a case that ended the previous worker process
            return Ok(());
        }
        let mut g = cell.borrow_mut();
        let counting = !g.1;
        if counting {
            // announce the case (crash attribution) and arm the per-case time limit
            announce_case(k);
            unsafe { libc::alarm(8) };
        }
        let r = one_case(&cs, &vals, &ms, &mut g.0, counting);
        unsafe { libc::alarm(0) };
        if counting && k % 128 == 127 {
            // partial statistics, so that a later abort does not lose them
            worker_emit(&g.0);
            g.0 = Stats::default();
        }
        match r {
            Ok(()) => Ok(()),
            Err((f, info)) => {
                g.1 = true;
                let name = f.check.clone();
                // the most recent failing execution is the one proptest reports at the end of
                // shrinking; its bytes are kept (values containing hash containers do not
                // re-encode to the same bytes, so re-deriving them would not reproduce)
                *last_fail.borrow_mut() = Some((f, info));
                Err(TestCaseError::fail(name))
            }
        }
    });
    let (mut s, _) = cell.into_inner();
    match res {
        Ok(()) => {}
        Err(TestError::Fail(_, (_vals, _ms))) => {
            // confirm on the exact bytes, outside proptest
            let confirmed = last_fail.borrow_mut().take().and_then(|(f, info)| {
                let input = unhex(f.extra["input"].as_str().unwrap_or(""));
                let c = parse_container(f.extra["container"].as_str().unwrap_or(""));
                let p = parse_path(f.extra["path"].as_str().unwrap_or(""));
                let v = f.extra["version"].as_u64().unwrap_or(b.uni.version as u64) as u32;
                match judge(b, ri, c, p, v, &input) {
                    Err(f2) => Some((f2, info)),
                    Ok(_) => None,
                }
            });
            match confirmed.ok_or(()) {
                Ok((f, info)) => {
                    let mut signature = BTreeMap::new();
                    signature.insert("check".to_string(), f.check.clone());
                    for k in ["container", "path", "panic_kind", "invalid_kind", "via_bulk_copy"] {
                        if let Some(v) = f.extra.get(k).and_then(|v| v.as_str()) {
                            signature.insert(k.to_string(), v.to_string());
                        }
                    }
                    signature.insert("root_kind".into(), ty_kind(&root.ty).to_string());
                    signature.insert("type".into(), b.uni.rust_ty(&root.ty, ""));
                    for fl in reach_flags(&b.uni, &root.ty) {
                        signature.insert(format!("reaches_{}", fl), "true".into());
                    }
                    let replay = json!({
                        "kind": "malformed_case", "batch": b.name, "root_index": ri, "root_ty_ir": root.ty, "root_type": b.uni.rust_ty(&root.ty, ""),
                        "container": f.extra["container"], "path": f.extra["path"], "version": f.extra["version"], "input_hex": f.extra["input"],
                        "failed_check": f.check, "detail": f.detail, "how": info, "definitions": def_source(b, &root.ty),
                    });
                    s.violations.push(Violation { signature, replay });
                }
                Err(()) => s.inconclusive.push(format!("failure for root {} did not reproduce on the recorded bytes", ri)),
            }
        }
        Err(TestError::Abort(r)) => s.inconclusive.push(format!("proptest abort: {}", r)),
    }
    *st = s;
}

fn parse_container(s: &str) -> Container {
    match s {
        "Bare" => Container::Bare,
        "NoSchema" => Container::NoSchema,
        "Compressed" => Container::Compressed,
        "CryptoMem" => Container::CryptoMem,
        _ => Container::Plain,
    }
}
fn parse_path(s: &str) -> PathK {
    match s {
        "Vec" => PathK::Vec,
        "Arr3" => PathK::Arr3,
        "BoxSlice" => PathK::BoxSlice,
        "ArcSlice" => PathK::ArcSlice,
        "ArrayVec4" => PathK::ArrayVec4,
        "Slice" => PathK::Slice,
        _ => PathK::Single,
    }
}

fn main() {
    let started = Instant::now();
    let args = parse_args();
    quiet_panics();
    let batches = load_batches();
    if let Some(path) = &args.replay {
        let body: Value = match std::fs::read_to_string(path).ok().and_then(|s| serde_json::from_str(&s).ok()) {
            Some(v) => v,
            None => std::process::exit(2),
        };
        let case = &body["case"];
        let b = match batches.iter().find(|b| b.name == case["batch"].as_str().unwrap_or("")) {
            Some(b) => b,
            None => std::process::exit(2),
        };
        let ri = case["root_index"].as_u64().unwrap_or(0) as usize;
        let want_ty: Ty = serde_json::from_value(case["root_ty_ir"].clone()).unwrap();
        if ri >= b.roots.len() || b.roots[ri].ty != want_ty {
            eprintln!("replay: regenerated batch differs");
            std::process::exit(2);
        }
        let input = unhex(case["input_hex"].as_str().unwrap_or(""));
        let c = parse_container(case["container"].as_str().unwrap_or(""));
        let p = parse_path(case["path"].as_str().unwrap_or(""));
        let v = case["version"].as_u64().unwrap_or(b.uni.version as u64) as u32;
        match judge(b, ri, c, p, v, &input) {
            Ok(class) => {
                println!("replay {}: case passes ({})", path, class);
                std::process::exit(0)
            }
            Err(f) => {
                println!("replay {}: still fails: [{}] {}", path, f.check, f.detail);
                println!("VIOLATION property=C06 replay={}", path);
                std::process::exit(1)
            }
        }
    }
    if args.worker.is_some() {
        let mut shard = Shard::new(&args);
        for b in &batches {
            for ri in 0..b.roots.len() {
                // debugging aid: VERIF_ONLY_ROOT=<substring of the type name>
                if let Ok(only) = std::env::var("VERIF_ONLY_ROOT") {
                    if !b.ops[ri].type_name().contains(&only) {
                        continue;
                    }
                }
                if !shard.take(&format!("{}:{}:{}", b.name, ri, b.ops[ri].type_name())) {
                    continue;
                }
                let skip = shard.skip_for_current();
                let mut st = Stats::default();
                run_root(&args, b, ri, &mut st, skip);
                worker_emit(&st);
            }
        }
        shard.done();
        return;
    }
    let nworkers = std::thread::available_parallelism().map(|n| n.get()).unwrap_or(8).min(16);
    let mut stats = run_workers(&args, nworkers, &["--oom-abort-excepted".to_string()]);
    let nroots: usize = batches.iter().map(|b| b.roots.len()).sum();
    stats.notes.push(format!("{} root types; 7 (container, path) plans per case", nroots));
    let _ = header(0, false);
    let rep = Report {
        args: &args,
        level: "exploration",
        rule: "case = (root type, 3 generated values, 1-2 generated mutations) x {bare, noschema, plain} x {single, Vec, [T;3], ArrayVec, Box<[T]>}: mutations are role-aware (lengths -> len+-1, 2^16, 2^61+k, 2^62+1, 2^63, 2^64-1; tags/bools -> 2..255; discriminants out of range; chars -> surrogates and > 0x10FFFF; string bytes -> invalid UTF-8; numbers -> random) using the reference encoder's span labels, plus byte flips, truncation, splices of other valid encodings, random bodies behind a valid header and u64 length patterns at arbitrary offsets; oracle (in-process, not crash-only): result is Ok or Err; no panic except allocation failure when the reference decoder confirms an absurd declared length; for Ok every bool is 0/1, every char a scalar value, every enum variant valid and every returned collection satisfies len x min_wire_size(elem) <= input length; process death is attributed to the case by the worker protocol. non-trivial = mutated input differs from the valid one inside the payload; distinct by input bytes",
        assumptions: vec![
            "inputs whose declared length (per the reference decoder) is between 2^28 and 2^60 elements are skipped and counted: the allocation would be attempted and fail, which the property excepts".into(),
            "debug profile with overflow checks; the release/ASan configuration is exercised by the libFuzzer target in /verif/fuzz (thorough tier)".into(),
        ],
        extra_coverage: json!({"root_types": nroots}),
        exhaustive: false,
    };
    std::process::exit(finish(rep, stats, started));
}
