//! C17: introspection is self-consistent and navigation never panics.

use checks::data::*;
use hcore::ops::{guard, quiet_panics, Out};
use hcore::runner::*;
use proptest::prelude::*;
use proptest::test_runner::{Config, RngSeed, TestCaseError, TestError, TestRunner};
use savefile::{Introspect, IntrospectedElementKey, IntrospectionResult, Introspector, IntrospectorNavCommand};
use serde_json::{json, Value};
use std::cell::RefCell;
use std::collections::BTreeMap;
use std::time::Instant;
use vcore::dv::DV;
use vcore::ir::*;
use vcore::strat::{strategy, Opts};

struct IFail {
    check: String,
    detail: String,
    extra: Value,
}

#[derive(Clone, Debug)]
enum Cmd {
    /// expand by key: pick the n-th key of the previous result (or a made-up key), at a depth offset
    Expand { pick: u32, made_up: Option<String>, depth: u8, disamb: u8 },
    Select { depth: u8, index: u16 },
    Up,
    Nothing,
}

fn cmd_strategy() -> BoxedStrategy<Vec<Cmd>> {
    let c = prop_oneof![
        5 => (any::<u32>(), proptest::option::weighted(0.2, "[a-z0-9#]{0,4}"), 0u8..6, 0u8..3).prop_map(|(pick, made_up, depth, disamb)| Cmd::Expand { pick, made_up, depth, disamb }),
        4 => (0u8..6, prop_oneof![0u16..6, 0u16..200, Just(u16::MAX)]).prop_map(|(depth, index)| Cmd::Select { depth, index }),
        2 => Just(Cmd::Up),
        1 => Just(Cmd::Nothing),
    ];
    proptest::collection::vec(c, 1..10).boxed()
}

/// children are indexed consecutively from 0 and introspect_len() is their number
fn walk(node: &dyn Introspect, depth: usize, path: &str, nodes: &mut usize, multi: &mut bool) -> Result<(), IFail> {
    *nodes += 1;
    if *nodes > 4000 {
        return Ok(());
    }
    let len = node.introspect_len();
    let mut count = 0usize;
    while count < 30_000 && node.introspect_child(count).is_some() {
        count += 1;
    }
    let kind = node.introspect_value();
    let kind: String = kind.chars().take(40).collect();
    if len != count {
        return Err(IFail {
            check: "introspect_len_differs_from_children".into(),
            detail: format!("node {} ({}): introspect_len() = {} but {} consecutive children can be fetched", path, kind, len, count),
            extra: json!({"len": len, "children": count, "ratio_2x": count == 2 * len && len > 0, "node": kind}),
        });
    }
    for probe in [len, len + 1, usize::MAX] {
        if node.introspect_child(probe).is_some() {
            return Err(IFail {
                check: "child_beyond_len".into(),
                detail: format!("node {} ({}): introspect_len() = {} but child({}) exists", path, kind, len, probe),
                extra: json!({"len": len, "probe": probe.to_string()}),
            });
        }
    }
    if count >= 2 {
        *multi = true;
    }
    if depth < 4 {
        for i in 0..count.min(12) {
            if let Some(ch) = node.introspect_child(i) {
                let key = ch.key().to_string();
                walk(ch.val(), depth + 1, &format!("{}/{}", path, key.chars().take(12).collect::<String>()), nodes, multi)?;
            }
        }
    }
    Ok(())
}

fn check_result(res: &IntrospectionResult, step: usize) -> Result<(), IFail> {
    let n = res.total_len();
    for i in 0..n + 3 {
        let some = match guard(|| Ok(res.total_index(i).is_some())) {
            Out::Ok(x) => x,
            o => {
                return Err(IFail {
                    check: "total_index_panic".into(),
                    detail: format!("step {}: total_len() = {}, total_index({}) panicked: {}", step, n, i, o.describe()),
                    extra: json!({"total_len": n, "index": i}),
                })
            }
        };
        if some != (i < n) {
            return Err(IFail {
                check: "total_index_disagrees_with_total_len".into(),
                detail: format!("step {}: total_len() = {} but total_index({}) is {}", step, n, i, if some { "Some" } else { "None" }),
                extra: json!({"total_len": n, "index": i}),
            });
        }
    }
    Ok(())
}

fn nav_case(obj: &dyn Introspect, child_limit: Option<usize>, cmds: &[Cmd], st: &mut Stats, counting: bool) -> Result<(), IFail> {
    let mut isp = match child_limit {
        None => Introspector::new(),
        Some(n) => Introspector::new_with(n),
    };
    let mut last: Option<IntrospectionResult> = None;
    let mut expanded = false;
    for (step, c) in cmds.iter().enumerate() {
        let cmd = match c {
            Cmd::Expand { pick, made_up, depth, disamb } => {
                // a key of the previous result if there is one
                let mut key = IntrospectedElementKey { depth: *depth as usize, key: made_up.clone().unwrap_or_default(), key_disambiguator: *disamb as usize };
                if made_up.is_none() {
                    if let Some(prev) = &last {
                        let n = prev.total_len();
                        if n > 0 {
                            if let Some(el) = prev.total_index(((*pick as u64 * n as u64) >> 32) as usize) {
                                key = el.key.clone();
                                // sometimes keep the generated depth/disambiguator instead of the real one
                                if *disamb == 2 {
                                    key.depth = *depth as usize;
                                }
                            }
                        }
                    }
                }
                IntrospectorNavCommand::ExpandElement(key)
            }
            Cmd::Select { depth, index } => IntrospectorNavCommand::SelectNth { select_depth: *depth as usize, select_index: if *index == u16::MAX { usize::MAX } else { *index as usize } },
            Cmd::Up => IntrospectorNavCommand::Up,
            Cmd::Nothing => IntrospectorNavCommand::Nothing,
        };
        let is_expand = matches!(cmd, IntrospectorNavCommand::ExpandElement(_) | IntrospectorNavCommand::SelectNth { .. });
        let r = guard(|| Ok(isp.do_introspect(obj, cmd)));
        if counting {
            st.evaluations += 1;
        }
        match r {
            Out::Panic(m) => {
                return Err(IFail {
                    check: "navigation_panic".into(),
                    detail: format!("step {} ({:?}) panicked: {}", step, c, m),
                    extra: json!({"command": format!("{:?}", c), "child_limit": child_limit.map(|x| x.to_string())}),
                })
            }
            Out::Ok(Ok(res)) => {
                check_result(&res, step)?;
                if is_expand {
                    expanded = true;
                }
                if counting {
                    st.class("nav.ok");
                }
                last = Some(res);
            }
            Out::Ok(Err(e)) => {
                if counting {
                    st.class(&format!("nav.err.{:?}", e));
                }
            }
            Out::Err(_) => {}
        }
    }
    if counting && expanded {
        st.class("sequence_with_successful_expansion");
    }
    Ok(())
}

fn one_case(b: &Batch, intro: &dyn hcore::intro::IntroOps, ri: usize, x: &DV, limit_sel: u8, cmds: &[Cmd], st: &mut Stats, counting: bool) -> Result<(), IFail> {
    let ops = &b.ops[ri];
    let x = ops.normalize(x);
    let child_limit = match limit_sel % 6 {
        0 => None,
        1 => Some(0),
        2 => Some(1),
        3 => Some(2),
        4 => Some(3),
        _ => Some(usize::MAX),
    };
    let mut result: Result<(), IFail> = Ok(());
    let mut multi = false;
    let mut nodes = 0usize;
    intro.with(&x, &mut |obj| {
        let r = guard(|| Ok(walk(obj, 0, "", &mut nodes, &mut multi)));
        result = match r {
            Out::Ok(r) => r,
            Out::Panic(m) => Err(IFail { check: "introspect_panic".into(), detail: m, extra: json!({}) }),
            Out::Err(_) => Ok(()),
        };
        if result.is_ok() {
            result = nav_case(obj, child_limit, cmds, st, counting);
        }
    });
    if counting {
        st.evaluations += 1;
        if multi {
            st.nontrivial.insert(vcore::rng::fnv64(format!("{}/{}/{:?}/{:?}", b.name, ri, x, cmds).as_bytes()));
        }
        if st.samples.len() < 3 && multi && nodes > 4 {
            st.sample(json!({"type": ops.type_name(), "value": x.render(), "nodes_walked": nodes, "child_limit": child_limit.map(|x| x.to_string()), "commands": format!("{:?}", cmds)}));
        }
    }
    result
}

fn run_root(args: &Args, b: &Batch, intro: &dyn hcore::intro::IntroOps, ri: usize, st: &mut Stats) {
    let root = &b.roots[ri];
    let cases = if args.tier == "thorough" { 12000 } else { 1500 };
    let seed = vcore::rng::fnv64(format!("{}/C17/{}/{}", args.seed, b.name, ri).as_bytes());
    let strat = (strategy(&b.uni, &root.ty, Opts { max_len: 6, budget: 4, variants_at: None }), any::<u8>(), cmd_strategy());
    let mut runner = TestRunner::new(Config { cases, rng_seed: RngSeed::Fixed(seed), failure_persistence: None, max_shrink_iters: 300, ..Config::default() });
    let cell = RefCell::new((std::mem::take(st), false));
    let res = runner.run(&strat, |(x, l, cmds)| {
        let mut g = cell.borrow_mut();
        let counting = !g.1;
        match one_case(b, intro, ri, &x, l, &cmds, &mut g.0, counting) {
            Ok(()) => Ok(()),
            Err(f) => {
                g.1 = true;
                Err(TestCaseError::fail(f.check))
            }
        }
    });
    let (mut s, _) = cell.into_inner();
    match res {
        Ok(()) => {}
        Err(TestError::Fail(_, (x, l, cmds))) => {
            let mut scratch = Stats::default();
            match one_case(b, intro, ri, &x, l, &cmds, &mut scratch, false) {
                Err(f) => {
                    let mut signature = BTreeMap::new();
                    signature.insert("check".to_string(), f.check.clone());
                    for k in ["ratio_2x", "node", "command"] {
                        if let Some(v) = f.extra.get(k) {
                            let mut sv = v.as_str().map(|x| x.to_string()).unwrap_or_else(|| v.to_string());
                            if k == "node" {
                                // container kind only ("HashMap<..>" -> "HashMap")
                                sv = sv.split(|c: char| c == '<' || c == '[' || c == '(').next().unwrap_or("").to_string();
                            }
                            if k == "command" {
                                sv = sv.split(|c: char| c == ' ' || c == '{').next().unwrap_or("").to_string();
                            }
                            signature.insert(k.to_string(), sv);
                        }
                    }
                    signature.insert("root_kind".into(), ty_kind(&root.ty).to_string());
                    let replay = json!({"kind": "intro_case", "batch": b.name, "root_index": ri, "root_ty_ir": root.ty, "root_type": b.uni.rust_ty(&root.ty, ""),
                        "value": x, "limit_sel": l, "commands": format!("{:?}", cmds), "failed_check": f.check, "detail": f.detail, "extra": f.extra});
                    s.violations.push(Violation { signature, replay });
                }
                Ok(()) => s.inconclusive.push("failure did not reproduce".into()),
            }
        }
        Err(TestError::Abort(r)) => s.inconclusive.push(format!("proptest abort: {}", r)),
    }
    *st = s;
}

fn main() {
    let started = Instant::now();
    let args = parse_args();
    quiet_panics();
    let batches = load_batches();
    let intros = vec![gen_data::fixed::intro_roots(), gen_data::seeded::intro_roots()];
    if let Some(path) = &args.replay {
        // value-level replay (the command list is regenerated only for walk failures)
        let body: Value = match std::fs::read_to_string(path).ok().and_then(|s| serde_json::from_str(&s).ok()) {
            Some(v) => v,
            None => std::process::exit(2),
        };
        let c = &body["case"];
        let bi = batches.iter().position(|b| b.name == c["batch"].as_str().unwrap_or("")).unwrap_or(0);
        let b = &batches[bi];
        let ri = c["root_index"].as_u64().unwrap_or(0) as usize;
        let want_ty: Ty = serde_json::from_value(c["root_ty_ir"].clone()).unwrap();
        if ri >= b.roots.len() || b.roots[ri].ty != want_ty || intros[bi][ri].is_none() {
            eprintln!("replay: regenerated batch differs");
            std::process::exit(2);
        }
        let x: DV = serde_json::from_value(c["value"].clone()).unwrap();
        let mut st = Stats::default();
        // replays re-run the structural walk and a fixed navigation over every child limit
        let cmds = vec![Cmd::Select { depth: 0, index: 0 }, Cmd::Select { depth: 1, index: 1 }, Cmd::Up, Cmd::Nothing, Cmd::Select { depth: 0, index: u16::MAX }];
        let mut res = Ok(());
        for l in 0..6u8 {
            res = one_case(b, &**intros[bi][ri].as_ref().unwrap(), ri, &x, l, &cmds, &mut st, false);
            if res.is_err() {
                break;
            }
        }
        match res {
            Ok(()) => {
                println!("replay {}: case passes", path);
                std::process::exit(0)
            }
            Err(f) => {
                println!("replay {}: still fails: [{}] {}", path, f.check, f.detail);
                println!("VIOLATION property=C17 replay={}", path);
                std::process::exit(1)
            }
        }
    }
    if args.worker.is_some() {
        let mut shard = Shard::new(&args);
        for (bi, b) in batches.iter().enumerate() {
            for ri in 0..b.roots.len() {
                if !shard.take(&format!("{}:{}:{}", b.name, ri, b.ops[ri].type_name())) {
                    continue;
                }
                let mut st = Stats::default();
                match &intros[bi][ri] {
                    Some(i) => run_root(&args, b, &**i, ri, &mut st),
                    None => st.class("root_without_introspect_impl"),
                }
                worker_emit(&st);
            }
        }
        shard.done();
        return;
    }
    let nworkers = std::thread::available_parallelism().map(|n| n.get()).unwrap_or(8).min(16);
    let stats = run_workers(&args, nworkers, &[]);
    let rep = Report {
        args: &args,
        level: "exploration",
        rule: "case = (root type, generated value, child limit in {none,0,1,2,3,usize::MAX}, generated sequence of 1-9 navigation commands: ExpandElement with a key of the previous result or a made-up key at generated depth/disambiguator, SelectNth with in- and out-of-range depth/index, Up, Nothing); oracle: for every node down to depth 4 introspect_len() == number of consecutive children from index 0 and child(len), child(len+1), child(usize::MAX) are None; no command panics; for every Ok result total_index(i).is_some() <=> i < total_len() for i in 0..total_len()+3. non-trivial = value has a node with >= 2 children; distinct by (root, value, commands)",
        assumptions: vec!["types without an Introspect impl (Cell<T>, io::Error) are skipped; stable toolchain only (the nightly feature changes some impls)".into()],
        extra_coverage: json!({}),
        exhaustive: false,
    };
    std::process::exit(finish(rep, stats, started));
}
