//! C05: schema and header gate — mismatched data is rejected, never misread.

use checks::data::*;
use hcore::ops::*;
use hcore::runner::*;
use proptest::test_runner::{Config, RngSeed, TestCaseError, TestError, TestRunner};
use serde_json::{json, Value};
use std::cell::RefCell;
use std::collections::BTreeMap;
use std::io::Read;
use std::sync::Arc;
use std::time::Instant;
use vcore::dv::DV;
use vcore::ir::*;
use vcore::pairs::{PairBatch, PairSpec};
use vcore::strat::{strategy, Opts};

struct Rt {
    pb: PairBatch,
    b: Batch,
}

fn load() -> Rt {
    let pb: PairBatch = serde_json::from_str(gen_pairs::pairs::IR_JSON).expect("pairs json");
    let ops = gen_pairs::pairs::roots();
    let b = Batch { name: "pairs", seed: pb.seed, uni: Arc::new(pb.uni.clone()), roots: pb.roots.clone(), ops, gen_stats: BTreeMap::new() };
    Rt { pb, b }
}

struct GFail {
    check: String,
    detail: String,
    extra: Value,
}

struct CountingReader<'a> {
    inner: &'a [u8],
    pos: usize,
    requested: usize,
}
impl Read for CountingReader<'_> {
    fn read(&mut self, buf: &mut [u8]) -> std::io::Result<usize> {
        self.requested += buf.len();
        let n = buf.len().min(self.inner.len() - self.pos);
        buf[..n].copy_from_slice(&self.inner[self.pos..self.pos + n]);
        self.pos += n;
        Ok(n)
    }
}

/// One (S, L) pair with one value of S.
fn pair_case(rt: &Rt, spec: &PairSpec, x: &DV, st: &mut Stats, counting: bool) -> Result<(), GFail> {
    let b = &rt.b;
    let u = &*b.uni;
    let (sa, sb) = (&b.ops[spec.a], &b.ops[spec.b]);
    let (ta, tb) = (&b.roots[spec.a].ty, &b.roots[spec.b].ty);
    let cur = u.version;
    let x = sa.normalize(x);
    let versions = if u.has_version_dependence(ta) || u.has_version_dependence(tb) { u.versions() } else { vec![cur] };
    for v in versions {
        let saved_model = match u.after_reload(ta, v, &x) {
            Ok(m) => m,
            Err(_) => {
                if counting {
                    *st.excluded.entry("version_where_documented_writer_refuses".into()).or_insert(0) += 1;
                }
                continue;
            }
        };
        let na = u.wnorm(ta, v);
        let nb = u.wnorm(tb, v);
        for c in [Container::Plain, Container::Compressed] {
            let ex = json!({"container": format!("{:?}", c), "version": v, "relation": spec.rel});
            let bytes = match sa.write_vec(c, PathK::Single, v, &[x.clone()]) {
                Out::Ok(bts) => bts,
                o => return Err(GFail { check: "save_failed".into(), detail: o.describe(), extra: ex }),
            };
            let r = sb.read_slice(c, PathK::Single, cur, &bytes);
            if counting {
                st.evaluations += 1;
            }
            if spec.must_accept {
                // documented-insignificant difference: must load, to the same value
                match r {
                    Out::Ok((got, _)) => {
                        // compare through S's view: both types have the same DV shape by construction
                        let want = sb.normalize(&saved_model);
                        let sort_if_unordered = |d: DV| -> DV {
                            // a hash container on either side: element order is unspecified
                            if u.has_unordered(ta) || u.has_unordered(tb) {
                                if let DV::L(mut xs) = d {
                                    xs.sort();
                                    return DV::L(xs);
                                }
                            }
                            d
                        };
                        if sort_if_unordered(u.canon(tb, &got[0])) != sort_if_unordered(u.canon(tb, &want)) {
                            return Err(GFail {
                                check: "accepted_but_different_value".into(),
                                detail: format!("saved {} loaded {}", want.render(), got[0].render()),
                                extra: ex,
                            });
                        }
                        if counting {
                            st.class(&format!("accept.{}", spec.rel.split('.').next().unwrap_or("")));
                            st.nontrivial.insert(vcore::rng::fnv64(format!("{}/{}/{}/{}", spec.a, spec.b, v, hex_full(&bytes)).as_bytes()));
                        }
                    }
                    o => {
                        return Err(GFail {
                            check: "insignificant_difference_rejected".into(),
                            detail: format!("types differ only in {} but load failed: {}", spec.rel, o.describe()),
                            extra: ex,
                        })
                    }
                }
            } else if na != nb {
                match r {
                    Out::Err(e) if e.kind == "IncompatibleSchema" => {
                        if counting {
                            st.class(&format!("reject.{}", spec.rel));
                            st.nontrivial.insert(vcore::rng::fnv64(format!("{}/{}/{}/{}", spec.a, spec.b, v, hex_full(&bytes)).as_bytes()));
                            if st.samples.len() < 3 && spec.rel.starts_with("mut.") {
                                st.sample(json!({"saved_type": sa.type_name(), "loaded_type": sb.type_name(), "relation": spec.rel, "version": v, "value": x.render(), "result": format!("Err({}: {})", e.kind, e.msg.chars().take(160).collect::<String>())}));
                            }
                        }
                    }
                    Out::Ok((got, _)) => {
                        return Err(GFail {
                            check: "mismatched_layout_accepted".into(),
                            detail: format!("wire layouts differ ({:?} vs {:?}) but load returned Ok({})", short(&na), short(&nb), got[0].render()),
                            extra: ex,
                        })
                    }
                    Out::Err(e) => {
                        return Err(GFail {
                            check: "mismatched_layout_wrong_error".into(),
                            detail: format!("wire layouts differ but load failed with {} ({}) instead of a schema incompatibility", e.kind, e.msg),
                            extra: ex,
                        })
                    }
                    Out::Panic(m) => return Err(GFail { check: "mismatched_layout_panic".into(), detail: m, extra: ex }),
                }
            } else {
                // same normal form, no documented statement either way: only "no panic"
                if let Out::Panic(m) = r {
                    return Err(GFail { check: "load_panic".into(), detail: m, extra: ex });
                }
                if counting {
                    st.class("same_normal_form_no_expectation");
                }
            }
        }
    }
    Ok(())
}

/// C11 on derived definitions: the schemas of two definitions whose memory representations
/// differ by construction must not be layout compatible (in either direction).
fn layout_pair_case(rt: &Rt, spec: &PairSpec, st: &mut Stats) -> Result<(), GFail> {
    let b = &rt.b;
    let (sa, sb) = (&b.ops[spec.a], &b.ops[spec.b]);
    for v in b.uni.versions() {
        let (Out::Ok(a), Out::Ok(m)) = (sa.schema(v), sb.schema(v)) else { continue };
        st.evaluations += 1;
        let self_ok = a.layout_compatible(&a);
        st.class(if self_ok { "derived.self_compatible" } else { "derived.layout_unknown" });
        for (x, y, dir) in [(&a, &m, "base_vs_twin"), (&m, &a, "twin_vs_base")] {
            if x.layout_compatible(y) {
                return Err(GFail {
                    check: "different_memory_representation_reported_compatible".into(),
                    detail: format!("{} ({}): schemas of {} and {} are layout_compatible at version {}", spec.rel, dir, sa.type_name(), sb.type_name(), v),
                    extra: json!({"relation": spec.rel, "version": v}),
                });
            }
        }
        if self_ok {
            st.nontrivial.insert(vcore::rng::fnv64(format!("{}/{}/{}", spec.a, spec.b, v).as_bytes()));
            if st.samples.len() < 3 {
                st.sample(json!({"relation": spec.rel, "base": sa.type_name(), "twin": sb.type_name(), "version": v, "layout_compatible": false, "definitions": def_source(b, &b.roots[spec.a].ty).chars().take(400).collect::<String>()}));
            }
        }
    }
    Ok(())
}

fn short(n: &vcore::pairs::WNorm) -> String {
    format!("{:?}", n).chars().take(160).collect()
}

/// Header corruptions of a valid file of root `ri`.
fn header_case(rt: &Rt, ri: usize, x: &DV, st: &mut Stats, counting: bool) -> Result<(), GFail> {
    let b = &rt.b;
    let ops = &b.ops[ri];
    let cur = b.uni.version;
    let x = ops.normalize(x);
    let good = match ops.write_vec(Container::Plain, PathK::Single, cur, &[x.clone()]) {
        Out::Ok(bts) => bts,
        _ => return Ok(()),
    };
    let mut muts: Vec<(String, Vec<u8>)> = vec![];
    for i in 0..9 {
        for d in [1u8, 0x20, 0x80, 0xff] {
            let mut m = good.clone();
            m[i] ^= d;
            muts.push((format!("magic[{}]^{:#x}", i, d), m));
        }
    }
    for fv in [3u16, 4, 255, 256, 65535, 0x0302] {
        let mut m = good.clone();
        m[9..11].copy_from_slice(&fv.to_le_bytes());
        muts.push((format!("format_version={}", fv), m));
    }
    for dv in [cur + 1, cur + 2, 255, 65536, u32::MAX] {
        let mut m = good.clone();
        m[11..15].copy_from_slice(&dv.to_le_bytes());
        muts.push((format!("data_version={}", dv), m));
    }
    for (what, m) in muts {
        let mut rd = CountingReader { inner: &m, pos: 0, requested: 0 };
        let r = ops.read(Container::Plain, PathK::Single, cur, &mut rd);
        if counting {
            st.evaluations += 1;
        }
        let ex = json!({"corruption": what, "type": ops.type_name()});
        match r {
            Out::Err(_) => {}
            Out::Ok(_) => return Err(GFail { check: "corrupt_header_accepted".into(), detail: format!("{}: load returned Ok", what), extra: ex }),
            Out::Panic(p) => return Err(GFail { check: "corrupt_header_panic".into(), detail: format!("{}: {}", what, p), extra: ex }),
        }
        if rd.requested > 16 {
            return Err(GFail {
                check: "payload_read_before_header_rejected".into(),
                detail: format!("{}: {} bytes were requested from the reader although the 16-byte header is already invalid", what, rd.requested),
                extra: ex,
            });
        }
        if counting {
            st.class(&format!("header.{}", what.split(|c| c == '[' || c == '=').next().unwrap_or("")));
            st.nontrivial.insert(vcore::rng::fnv64(format!("hdr/{}/{}", ri, what).as_bytes()));
        }
    }
    Ok(())
}

fn run_unit(args: &Args, rt: &Rt, spec: &PairSpec, header_root: Option<usize>, cases: u32, st: &mut Stats, pair_index: usize) {
    let b = &rt.b;
    let src = header_root.unwrap_or(spec.a);
    let strat = strategy(&b.uni, &b.roots[src].ty, Opts { max_len: 4, budget: 3, variants_at: None });
    let seed = vcore::rng::fnv64(format!("{}/C05/{}/{}/{}/{:?}", args.seed, spec.a, spec.b, spec.rel, header_root).as_bytes());
    let mut runner = TestRunner::new(Config { cases, rng_seed: RngSeed::Fixed(seed), failure_persistence: None, max_shrink_iters: 200, ..Config::default() });
    let cell = RefCell::new((std::mem::take(st), false));
    let run = |x: &DV, s: &mut Stats, counting: bool| match header_root {
        Some(ri) => header_case(rt, ri, x, s, counting),
        None => pair_case(rt, spec, x, s, counting),
    };
    let res = runner.run(&strat, |x| {
        let mut g = cell.borrow_mut();
        let counting = !g.1;
        match run(&x, &mut g.0, counting) {
            Ok(()) => Ok(()),
            Err(f) => {
                g.1 = true;
                Err(TestCaseError::fail(f.check))
            }
        }
    });
    let (mut s, _) = cell.into_inner();
    match res {
        Ok(()) => {}
        Err(TestError::Fail(_, x)) => {
            let mut scratch = Stats::default();
            match run(&x, &mut scratch, false) {
                Err(f) => {
                    let mut signature = BTreeMap::new();
                    signature.insert("check".to_string(), f.check.clone());
                    signature.insert("relation".to_string(), spec.rel.clone());
                    signature.insert("saved_kind".to_string(), ty_kind(&b.roots[spec.a].ty).to_string());
                    signature.insert("saved_type".to_string(), b.uni.rust_ty(&b.roots[spec.a].ty, ""));
                    signature.insert("loaded_type".to_string(), b.uni.rust_ty(&b.roots[spec.b].ty, ""));
                    for fl in checks::data::reach_flags(&b.uni, &b.roots[spec.a].ty) {
                        signature.insert(format!("reaches_{}", fl), "true".into());
                    }
                    let replay = json!({
                        "kind": "gate_case", "pair_index": pair_index, "spec": spec, "header_root": header_root,
                        "saved_ty": b.roots[spec.a].ty, "loaded_ty": b.roots[spec.b].ty,
                        "value": x, "failed_check": f.check, "detail": f.detail, "extra": f.extra,
                        "definitions_saved": def_source(b, &b.roots[spec.a].ty),
                        "definitions_loaded": def_source(b, &b.roots[spec.b].ty),
                    });
                    s.violations.push(Violation { signature, replay });
                }
                Ok(()) => s.inconclusive.push("failure did not reproduce".into()),
            }
        }
        Err(TestError::Abort(r)) => s.inconclusive.push(format!("proptest abort: {}", r)),
    }
    *st = s;
}

/// unrelated ordered pairs, chosen by the definition-level RNG (part of the generated "program")
fn unrelated_pairs(rt: &Rt, seed: u64, n: usize) -> Vec<PairSpec> {
    let mut rng = vcore::rng::Rng::new(seed ^ 0xBEEF);
    let nr = rt.b.roots.len();
    (0..n)
        .map(|_| {
            let a = rng.below(nr);
            let mut b = rng.below(nr);
            if a == b {
                b = (b + 1) % nr;
            }
            PairSpec { a, b, rel: "unrelated".into(), must_accept: false }
        })
        .collect()
}

fn main() {
    let started = Instant::now();
    let args = parse_args();
    quiet_panics();
    let rt = load();
    let thorough = args.tier == "thorough";
    let mut specs: Vec<PairSpec> = rt.pb.pairs.clone();
    // mutants are also tried in the reverse direction
    let rev: Vec<PairSpec> = specs.iter().filter(|p| !p.must_accept).map(|p| PairSpec { a: p.b, b: p.a, rel: p.rel.clone(), must_accept: false }).collect();
    specs.extend(rev);
    specs.extend(unrelated_pairs(&rt, args.seed, if thorough { 20000 } else { 2500 }));
    // all ordered pairs among the primitive and leaf roots (small, so enumerated completely)
    {
        let small: Vec<usize> = (0..rt.b.roots.len()).filter(|i| matches!(rt.b.roots[*i].class.as_str(), "prim" | "leaf")).collect();
        for a in &small {
            for b in &small {
                if a != b {
                    specs.push(PairSpec { a: *a, b: *b, rel: "unrelated".into(), must_accept: false });
                }
            }
        }
    }
    if let Some(path) = &args.replay {
        let body: Value = match std::fs::read_to_string(path).ok().and_then(|s| serde_json::from_str(&s).ok()) {
            Some(v) => v,
            None => std::process::exit(2),
        };
        let case = &body["case"];
        let spec: PairSpec = serde_json::from_value(case["spec"].clone()).unwrap();
        let sty: Ty = serde_json::from_value(case["saved_ty"].clone()).unwrap();
        let lty: Ty = serde_json::from_value(case["loaded_ty"].clone()).unwrap();
        if spec.a >= rt.b.roots.len() || spec.b >= rt.b.roots.len() || rt.b.roots[spec.a].ty != sty || rt.b.roots[spec.b].ty != lty {
            eprintln!("replay: regenerated pair batch differs (seed / generator changed)");
            std::process::exit(2);
        }
        let x: DV = serde_json::from_value(case["value"].clone()).unwrap();
        let hr = case["header_root"].as_u64().map(|v| v as usize);
        let mut st = Stats::default();
        let r = match hr {
            Some(ri) => header_case(&rt, ri, &x, &mut st, false),
            None => pair_case(&rt, &spec, &x, &mut st, false),
        };
        match r {
            Ok(()) => {
                println!("replay {}: case passes", path);
                std::process::exit(0)
            }
            Err(f) => {
                println!("replay {}: still fails: [{}] {}", path, f.check, f.detail);
                println!("VIOLATION property=C05 replay={}", path);
                std::process::exit(1)
            }
        }
    }
    if args.prop == "C11" {
        // derived-definition part of C11 (runs in-process: a few hundred schema comparisons)
        let mut st = Stats::default();
        for (pi, spec) in rt.pb.pairs.iter().enumerate() {
            // pairs that pass the wire-compatibility gate (so a connection would be created) but
            // whose memory representations differ by construction
            if !spec.rel.starts_with("layout.") {
                continue;
            }
            if let Err(f) = layout_pair_case(&rt, spec, &mut st) {
                let mut signature = BTreeMap::new();
                signature.insert("check".to_string(), f.check.clone());
                signature.insert("relation".to_string(), spec.rel.clone());
                let replay = json!({"kind": "layout_pair", "pair_index": pi, "spec": spec, "detail": f.detail, "extra": f.extra,
                    "definitions_base": def_source(&rt.b, &rt.b.roots[spec.a].ty), "definitions_twin": def_source(&rt.b, &rt.b.roots[spec.b].ty)});
                st.violations.push(Violation { signature, replay });
            }
        }
        println!("STATS {}", serde_json::to_string(&st).unwrap());
        return;
    }
    if args.worker.is_some() {
        let mut shard = Shard::new(&args);
        for (pi, spec) in specs.iter().enumerate() {
            if !shard.take(&format!("pair:{}:{}->{}:{}", pi, spec.a, spec.b, spec.rel)) {
                continue;
            }
            let cases = if spec.rel == "unrelated" { 2 } else if thorough { 40 } else { 8 };
            let mut st = Stats::default();
            run_unit(&args, &rt, spec, None, cases, &mut st, pi);
            worker_emit(&st);
        }
        for ri in 0..rt.b.roots.len() {
            if !shard.take(&format!("header:{}", ri)) {
                continue;
            }
            let dummy = PairSpec { a: ri, b: ri, rel: "header".into(), must_accept: false };
            let mut st = Stats::default();
            run_unit(&args, &rt, &dummy, Some(ri), if thorough { 6 } else { 1 }, &mut st, 0);
            worker_emit(&st);
        }
        shard.done();
        return;
    }
    let nworkers = std::thread::available_parallelism().map(|n| n.get()).unwrap_or(8).min(16);
    let mut stats = run_workers(&args, nworkers, &[]);
    stats.notes.push(format!("{} definitions, {} root types, {} constructed pairs (+reverse), {} unrelated pairs", rt.pb.uni.defs.len(), rt.b.roots.len(), rt.pb.pairs.len(), specs.iter().filter(|s| s.rel == "unrelated").count()));
    let rep = Report {
        args: &args,
        level: "exploration",
        rule: "case = ordered pair (saved type S, loaded type L) x generated value of S x version x {plain, bzip2}: single-edit mutants of generated definitions (primitive kind, array length, field added/removed/reordered, discriminant width, variant renamed/reordered, Option/Vec wrapping, the same one level down), twins differing only in documented-insignificant ways (struct/field names, Box/Rc/Arc/RefCell/Mutex/RwLock wrappers, sequence container kind) and random unrelated pairs; oracle: if the type-level wire normal forms differ load::<L> must return Err(IncompatibleSchema) (never Ok, never panic, no other error); for insignificant differences it must return Ok with the same value. Header corruptions (every magic byte x 4 flips, 6 format versions, 5 newer data versions) must give Err without requesting more than the 16 header bytes from the reader. non-trivial = pair with a definite expectation; distinct by (pair, version, bytes)",
        assumptions: vec![
            "acceptance is only asserted for differences the documentation calls insignificant; pairs that merely share a wire normal form carry no expectation (only: no panic)".into(),
            "the wire normal form of leaf types with private encodings is taken from the observed encoding".into(),
        ],
        extra_coverage: json!({"generator_distribution": rt.pb.stats, "definitions": rt.pb.uni.defs.len(), "root_types": rt.b.roots.len()}),
        exhaustive: false,
    };
    std::process::exit(finish(rep, stats, started));
}
