//! C13: schema values persist exactly (formats 1 and 2 write+read, format 0 read) and
//!      diff_schema is reflexive and complete.
//! C11 (part A): Schema::layout_compatible answers yes only for provably identical layouts.
//! Schemas are generated directly (own generator over the savefile-independent mirror
//! `RSchema`, converted through the public constructors).

use hcore::ops::{guard, quiet_panics, Out};
use hcore::runner::*;
use hcore::schema_conv::*;
use proptest::prelude::*;
use proptest::test_runner::{Config, RngSeed, TestCaseError, TestError, TestRunner};
use savefile::diff_schema;
use serde_json::{json, Value};
use std::cell::RefCell;
use std::collections::BTreeMap;
use std::time::Instant;
use vcore::rschema::*;

// ------------------------------------------------------------------------- generators

fn name_strategy() -> BoxedStrategy<String> {
    prop_oneof![
        6 => "[A-Za-z_][A-Za-z0-9_]{0,8}",
        1 => Just(String::new()),
        1 => Just("Ünï".to_string()),
        1 => Just("a".to_string()),
    ]
    .boxed()
}
fn ident_strategy() -> BoxedStrategy<String> {
    "[A-Za-z_][A-Za-z0-9_]{0,8}".boxed()
}
fn opt_u64(full_layout: bool) -> BoxedStrategy<Option<u64>> {
    if full_layout {
        (0u64..64).prop_map(Some).boxed()
    } else {
        prop_oneof![Just(None), (0u64..64).prop_map(Some), any::<u64>().prop_map(Some)].boxed()
    }
}
fn prim_strategy(full_layout: bool) -> BoxedStrategy<RSchema> {
    let kinds: Vec<RPrim> = (1u8..=16).filter_map(RPrim::from_tag).collect();
    (proptest::sample::select(kinds), if full_layout { (1u8..9).boxed() } else { (0u8..9).boxed() })
        .prop_map(|(k, l)| RSchema::Prim(k, if k == RPrim::Str { l } else { 0 }))
        .boxed()
}

fn traitdef_strategy(inner: BoxedStrategy<RSchema>) -> BoxedStrategy<RTraitDef> {
    let method = (ident_strategy(), inner.clone(), 100u8..103, any::<bool>(), proptest::collection::vec(inner, 0..3))
        .prop_map(|(name, ret, receiver, is_async, args)| RMethod { name, ret, receiver, is_async, args });
    (ident_strategy(), any::<bool>(), any::<bool>(), proptest::collection::vec(method, 0..3))
        .prop_map(|(name, sync, send, mut methods)| {
            // method names are unique within a trait
            let mut seen = std::collections::HashSet::new();
            methods.retain(|m| seen.insert(m.name.clone()));
            RTraitDef { name, sync, send, methods }
        })
        .boxed()
}

/// `data_only`: only nodes that describe serialized data (no traits / futures / undefined),
/// `full_layout`: every layout annotation is present (C11).
fn schema_strategy(data_only: bool, full_layout: bool) -> BoxedStrategy<RSchema> {
    let mut leaves: Vec<BoxedStrategy<RSchema>> = vec![prim_strategy(full_layout), prim_strategy(full_layout), Just(RSchema::ZeroSize).boxed()];
    if !full_layout {
        leaves.push(name_strategy().prop_map(RSchema::Custom).boxed());
        leaves.push(Just(RSchema::Str).boxed());
        leaves.push(Just(RSchema::StdIoError).boxed());
        leaves.push(Just(RSchema::UtcTimestamp).boxed());
        leaves.push(Just(RSchema::UninitSlice).boxed());
        leaves.push((0u64..4).prop_map(RSchema::Recursion).boxed());
    }
    if !data_only {
        leaves.push(Just(RSchema::Undefined).boxed());
    }
    let leaf = proptest::strategy::Union::new(leaves).boxed();
    leaf.prop_recursive(5, 60, 4, move |inner| {
        let field = (name_strategy(), inner.clone(), opt_u64(full_layout)).prop_map(|(name, value, offset)| RField { name, value, offset });
        let fields = proptest::collection::vec(field, 0..4);
        let variant = (name_strategy(), any::<u8>(), fields.clone()).prop_map(|(name, discr, fields)| RVariant { name, discr, fields });
        let mut alts: Vec<BoxedStrategy<RSchema>> = vec![
            (name_strategy(), fields.clone(), opt_u64(full_layout), opt_u64(full_layout))
                .prop_map(|(name, fields, size, align)| RSchema::Struct { name, fields, size, align })
                .boxed(),
            (name_strategy(), proptest::collection::vec(variant, 0..4), proptest::sample::select(vec![1u8, 2, 4]), if full_layout { Just(true).boxed() } else { any::<bool>().boxed() }, opt_u64(full_layout), opt_u64(full_layout))
                .prop_map(|(name, mut variants, discr_size, explicit_repr, size, align)| {
                    // wire discriminants = positions (what the derive produces), sometimes arbitrary
                    let positional = variants.iter().fold(0u8, |a, v| a.wrapping_add(v.discr)) % 3 != 0;
                    if positional {
                        for (i, v) in variants.iter_mut().enumerate() {
                            v.discr = i as u8;
                        }
                    }
                    RSchema::Enum { name, variants, discr_size, explicit_repr, size, align }
                })
                .boxed(),
            (inner.clone(), if full_layout { (1u8..9).boxed() } else { (0u8..9).boxed() }).prop_map(|(i, l)| RSchema::Vector(Box::new(i), l)).boxed(),
            (prop_oneof![0u64..6, Just(33u64)], inner.clone()).prop_map(|(n, i)| RSchema::Array(n, Box::new(i))).boxed(),
            inner.clone().prop_map(|i| RSchema::Boxed(Box::new(i))).boxed(),
        ];
        if !full_layout {
            alts.push(inner.clone().prop_map(|i| RSchema::Option(Box::new(i))).boxed());
            alts.push(inner.clone().prop_map(|i| RSchema::Slice(Box::new(i))).boxed());
            alts.push(inner.clone().prop_map(|i| RSchema::Reference(Box::new(i))).boxed());
        } else {
            alts.push(inner.clone().prop_map(|i| RSchema::Reference(Box::new(i))).boxed());
            alts.push(inner.clone().prop_map(|i| RSchema::Slice(Box::new(i))).boxed());
        }
        if !data_only {
            let td = traitdef_strategy(inner.clone());
            alts.push((any::<bool>(), td.clone()).prop_map(|(m, t)| RSchema::Trait(m, t)).boxed());
            alts.push((any::<bool>(), td.clone()).prop_map(|(m, t)| RSchema::FnClosure(m, t)).boxed());
            let _ = td;
        }
        proptest::strategy::Union::new(alts)
    })
    .boxed()
}

/// Futures are only supported in return position (documented precondition of diff_schema):
/// they are generated at the root of a tree only.
fn root_strategy(data_only: bool, full_layout: bool) -> BoxedStrategy<RSchema> {
    let tree = schema_strategy(data_only, full_layout);
    if data_only {
        return tree;
    }
    let fut = (traitdef_strategy(schema_strategy(false, false)), any::<bool>(), any::<bool>(), any::<bool>()).prop_map(|(t, a, b, c)| RSchema::Future(t, a, b, c));
    prop_oneof![9 => tree, 1 => fut].boxed()
}

// ------------------------------------------------------------------------- wire normal form + mutations

/// what determines the serialized layout (names of structs/fields and layout annotations dropped)
fn wire_norm(s: &RSchema) -> String {
    match s {
        RSchema::Struct { fields, .. } => format!("S[{}]", fields.iter().map(|f| wire_norm(&f.value)).collect::<Vec<_>>().join(",")),
        RSchema::Enum { variants, discr_size, .. } => format!(
            "E{}[{}]",
            discr_size,
            variants.iter().map(|v| format!("{}={}({})", v.name, v.discr, v.fields.iter().map(|f| wire_norm(&f.value)).collect::<Vec<_>>().join(","))).collect::<Vec<_>>().join("|")
        ),
        RSchema::Prim(p, _) => format!("P{}", *p as u8),
        RSchema::Vector(i, _) => format!("V({})", wire_norm(i)),
        RSchema::Option(i) => format!("O({})", wire_norm(i)),
        RSchema::Array(n, i) => format!("A{}({})", n, wire_norm(i)),
        RSchema::Boxed(i) | RSchema::Reference(i) | RSchema::Slice(i) => format!("B({})", wire_norm(i)),
        RSchema::Custom(c) => format!("C{:?}", c),
        RSchema::Recursion(d) => format!("R{}", d),
        other => format!("{:?}", std::mem::discriminant(other)),
    }
}

/// paths to data nodes (not inside trait definitions)
fn data_paths(s: &RSchema, cur: &mut Vec<usize>, out: &mut Vec<Vec<usize>>) {
    out.push(cur.clone());
    let mut k = 0;
    let mut rec = |c: &RSchema, cur: &mut Vec<usize>, out: &mut Vec<Vec<usize>>| {
        cur.push(k);
        data_paths(c, cur, out);
        cur.pop();
        k += 1;
    };
    match s {
        RSchema::Struct { fields, .. } => fields.iter().for_each(|f| rec(&f.value, cur, out)),
        RSchema::Enum { variants, .. } => variants.iter().for_each(|v| v.fields.iter().for_each(|f| rec(&f.value, cur, out))),
        RSchema::Vector(i, _) | RSchema::Option(i) | RSchema::Array(_, i) | RSchema::Boxed(i) | RSchema::Slice(i) | RSchema::Reference(i) => rec(i, cur, out),
        _ => {}
    }
}
fn node_mut<'a>(s: &'a mut RSchema, path: &[usize]) -> &'a mut RSchema {
    if path.is_empty() {
        return s;
    }
    let k = path[0];
    match s {
        RSchema::Struct { fields, .. } => node_mut(&mut fields[k].value, &path[1..]),
        RSchema::Enum { variants, .. } => {
            let mut i = 0;
            for v in variants.iter_mut() {
                for f in v.fields.iter_mut() {
                    if i == k {
                        return node_mut(&mut f.value, &path[1..]);
                    }
                    i += 1;
                }
            }
            unreachable!()
        }
        RSchema::Vector(i, _) | RSchema::Option(i) | RSchema::Array(_, i) | RSchema::Boxed(i) | RSchema::Slice(i) | RSchema::Reference(i) => node_mut(i, &path[1..]),
        _ => unreachable!(),
    }
}

/// one wire-altering edit at the node; returns a label
fn wire_mutate(n: &mut RSchema, r: u64) -> Option<&'static str> {
    let pick = (r % 7) as usize;
    match n {
        RSchema::Prim(p, _) if *p != RPrim::Str => {
            let all: Vec<RPrim> = (1u8..=16).filter_map(RPrim::from_tag).filter(|q| q != p).collect();
            *p = all[(r >> 8) as usize % all.len()];
            Some("primitive_kind")
        }
        RSchema::Struct { fields, .. } => match pick {
            0 | 1 => {
                fields.push(RField { name: "added".into(), value: RSchema::Prim(RPrim::U8, 0), offset: None });
                Some("field_added")
            }
            2 | 3 if !fields.is_empty() => {
                fields.remove((r >> 8) as usize % fields.len());
                Some("field_removed")
            }
            4 | 5 if fields.len() >= 2 => {
                let i = (r >> 8) as usize % (fields.len() - 1);
                fields.swap(i, i + 1);
                Some("fields_reordered")
            }
            _ => None,
        },
        RSchema::Enum { variants, discr_size, .. } => match pick {
            0 => {
                variants.push(RVariant { name: "Added".into(), discr: variants.len() as u8, fields: vec![] });
                Some("variant_added")
            }
            1 if !variants.is_empty() => {
                variants.remove((r >> 8) as usize % variants.len());
                Some("variant_removed")
            }
            2 if variants.len() >= 2 => {
                let i = (r >> 8) as usize % (variants.len() - 1);
                variants.swap(i, i + 1);
                Some("variants_reordered")
            }
            3 if !variants.is_empty() => {
                let i = (r >> 8) as usize % variants.len();
                variants[i].name.push('x');
                Some("variant_renamed")
            }
            4 if !variants.is_empty() => {
                let i = (r >> 8) as usize % variants.len();
                variants[i].discr = variants[i].discr.wrapping_add(1 + (r >> 16) as u8 % 200);
                Some("variant_discriminant")
            }
            5 => {
                *discr_size = match *discr_size {
                    1 => 2,
                    2 => 4,
                    _ => 1,
                };
                Some("discriminant_width")
            }
            6 if !variants.is_empty() => {
                // the payload of one variant: a field-less variant gains a field, or a variant loses its last one
                let i = (r >> 8) as usize % variants.len();
                if variants[i].fields.is_empty() || (r >> 20) & 1 == 0 {
                    variants[i].fields.push(RField { name: "added".into(), value: RSchema::Prim(RPrim::U32, 0), offset: None });
                    Some("variant_field_added")
                } else {
                    variants[i].fields.pop();
                    Some("variant_field_removed")
                }
            }
            _ => None,
        },
        RSchema::Array(c, _) => {
            *c += 1;
            Some("array_length")
        }
        _ => None,
    }
    .or_else(|| {
        // wrapping applies to any node
        let inner = n.clone();
        match r % 3 {
            0 => {
                *n = RSchema::Option(Box::new(inner));
                Some("option_wrapping")
            }
            1 => {
                *n = RSchema::Vector(Box::new(inner), 0);
                Some("vector_wrapping")
            }
            _ => match inner {
                RSchema::Option(i) | RSchema::Vector(i, _) => {
                    *n = *i;
                    Some("unwrapping")
                }
                other => {
                    *n = RSchema::Option(Box::new(other));
                    Some("option_wrapping")
                }
            },
        }
    })
}

/// one layout-relevant edit (C11); returns a label
fn layout_mutate(n: &mut RSchema, r: u64) -> Option<&'static str> {
    let pick = (r % 8) as usize;
    let bump = |o: &mut Option<u64>| *o = Some(o.unwrap_or(0) + 1 + (r >> 20) % 7);
    match n {
        RSchema::Struct { fields, size, align, .. } => match pick {
            0 => {
                bump(size);
                Some("struct_size")
            }
            1 => {
                bump(align);
                Some("struct_alignment")
            }
            2 if !fields.is_empty() => {
                let i = (r >> 8) as usize % fields.len();
                bump(&mut fields[i].offset);
                Some("field_offset")
            }
            3 if !fields.is_empty() => {
                let i = (r >> 8) as usize % fields.len();
                fields[i].offset = None;
                Some("field_offset_unknown")
            }
            4 => {
                *size = None;
                Some("struct_size_unknown")
            }
            5 => {
                fields.push(RField { name: "added".into(), value: RSchema::Prim(RPrim::U8, 0), offset: Some(0) });
                Some("field_count")
            }
            6 => {
                *align = None;
                Some("struct_alignment_unknown")
            }
            _ => None,
        },
        RSchema::Enum { variants, discr_size, explicit_repr, size, align, .. } => match pick {
            0 => {
                *discr_size = match *discr_size {
                    1 => 2,
                    2 => 4,
                    _ => 1,
                };
                Some("discriminant_width")
            }
            1 => {
                *explicit_repr = false;
                Some("no_explicit_repr")
            }
            2 => {
                bump(size);
                Some("enum_size")
            }
            3 => {
                bump(align);
                Some("enum_alignment")
            }
            4 => {
                variants.push(RVariant { name: "Added".into(), discr: variants.len() as u8, fields: vec![] });
                Some("variant_count")
            }
            5 if !variants.is_empty() => {
                let i = (r >> 8) as usize % variants.len();
                variants[i].discr = variants[i].discr.wrapping_add(1);
                Some("variant_discriminant")
            }
            6 => {
                *size = None;
                Some("enum_size_unknown")
            }
            _ => None,
        },
        RSchema::Vector(_, l) => {
            if pick % 2 == 0 {
                *l = 0;
                Some("vector_layout_unknown")
            } else {
                *l = 1 + (*l % 8);
                Some("vector_layout_variant")
            }
        }
        RSchema::Prim(RPrim::Str, l) => {
            if pick % 2 == 0 {
                *l = 0;
                Some("string_layout_unknown")
            } else {
                *l = 1 + (*l % 8);
                Some("string_layout_variant")
            }
        }
        RSchema::Prim(p, _) => {
            let all: Vec<RPrim> = (1u8..=16).filter_map(RPrim::from_tag).filter(|q| q != p && *q != RPrim::Str).collect();
            *p = all[(r >> 8) as usize % all.len()];
            Some("primitive_kind")
        }
        RSchema::Array(c, _) => {
            *c += 1;
            Some("array_length")
        }
        _ => None,
    }
}

fn has_unknown_layout(s: &RSchema) -> bool {
    match s {
        RSchema::Struct { fields, size, align, .. } => size.is_none() || align.is_none() || fields.iter().any(|f| f.offset.is_none() || has_unknown_layout(&f.value)),
        RSchema::Enum { variants, explicit_repr, size, align, .. } => {
            !explicit_repr || size.is_none() || align.is_none() || variants.iter().any(|v| v.fields.iter().any(|f| f.offset.is_none() || has_unknown_layout(&f.value)))
        }
        RSchema::Prim(RPrim::Str, l) => *l == 0,
        RSchema::Vector(i, l) => *l == 0 || has_unknown_layout(i),
        RSchema::Array(_, i) | RSchema::Boxed(i) | RSchema::Reference(i) | RSchema::Slice(i) => has_unknown_layout(i),
        RSchema::Option(_) | RSchema::Custom(_) | RSchema::Undefined | RSchema::Str | RSchema::Recursion(_) | RSchema::StdIoError | RSchema::UtcTimestamp | RSchema::UninitSlice => true,
        RSchema::Trait(_, _) | RSchema::FnClosure(_, _) | RSchema::Future(_, _, _, _) => true,
        RSchema::Prim(_, _) | RSchema::ZeroSize => false,
    }
}

// ------------------------------------------------------------------------- cases

struct SFail {
    check: String,
    detail: String,
    extra: Value,
}
fn sf(check: &str, detail: String, extra: Value) -> SFail {
    SFail { check: check.into(), detail, extra }
}
fn show(s: &RSchema) -> String {
    format!("{:?}", s).chars().take(500).collect()
}
fn contains(s: &RSchema, pred: &dyn Fn(&RSchema) -> bool) -> bool {
    if pred(s) {
        return true;
    }
    let t = |t: &RTraitDef| t.methods.iter().any(|m| contains(&m.ret, pred) || m.args.iter().any(|a| contains(a, pred)));
    match s {
        RSchema::Struct { fields, .. } => fields.iter().any(|f| contains(&f.value, pred)),
        RSchema::Enum { variants, .. } => variants.iter().any(|v| v.fields.iter().any(|f| contains(&f.value, pred))),
        RSchema::Vector(i, _) | RSchema::Option(i) | RSchema::Array(_, i) | RSchema::Boxed(i) | RSchema::Slice(i) | RSchema::Reference(i) => contains(i, pred),
        RSchema::Trait(_, d) | RSchema::FnClosure(_, d) | RSchema::Future(d, _, _, _) => t(d),
        _ => false,
    }
}

/// C13 (1),(2),(3): persistence + reflexivity for one schema
fn persist_case(rs: &RSchema, st: &mut Stats, counting: bool) -> Result<(), SFail> {
    let s = to_savefile(rs);
    if counting {
        st.evaluations += 1;
    }
    for f in [1u16, 2] {
        let ex = json!({"format": f, "schema": show(rs)});
        let bytes = match guard(|| lib_write(&s, f)) {
            Out::Ok(b) => b,
            o => return Err(sf("schema_write_failed", o.describe(), ex)),
        };
        let reference = write_schema(rs, f);
        if bytes != reference {
            return Err(sf("schema_bytes_differ_from_documented_grammar", format!("library {} reference {}", hex(&bytes), hex(&reference)), ex));
        }
        let (back, used) = match guard(|| lib_read(&bytes, f)) {
            Out::Ok(x) => x,
            o => return Err(sf(&format!("schema_read_{}", o.class()), format!("format {}: {}", f, o.describe()), ex)),
        };
        // format 1 cannot carry receiver kind / async flag
        let expected = if f == 1 {
            let mut r2 = rs.clone();
            reset_method_flags(&mut r2);
            to_savefile(&r2)
        } else {
            s.clone()
        };
        if back != expected || used != bytes.len() {
            return Err(sf("schema_roundtrip_differs", format!("format {}: read back {:?} (consumed {}/{})", f, format!("{:?}", back).chars().take(300).collect::<String>(), used, bytes.len()), ex));
        }
    }
    // format 0 (old files): reference encoder -> library reader
    {
        let bytes0 = write_schema(rs, 0);
        let ex = json!({"format": 0, "schema": show(rs)});
        match guard(|| lib_read(&bytes0, 0)) {
            Out::Ok((back, used)) => {
                let expected = to_savefile(&rs.strip_layout());
                if back != expected || used != bytes0.len() {
                    return Err(sf("format0_schema_misread", format!("read {:?} (consumed {}/{})", format!("{:?}", back).chars().take(300).collect::<String>(), used, bytes0.len()), ex));
                }
            }
            o => return Err(sf(&format!("format0_schema_read_{}", o.class()), o.describe(), ex)),
        }
    }
    // reflexive comparison (documented exception: Undefined always reports a difference)
    if !contains(rs, &|n| matches!(n, RSchema::Undefined)) {
        match guard(|| Ok(diff_schema(&s, &s, "".into(), true))) {
            Out::Ok(None) => {}
            Out::Ok(Some(d)) => return Err(sf("diff_not_reflexive", format!("diff_schema(s, s) = {}", d), json!({"schema": show(rs)}))),
            o => return Err(sf("diff_panic", o.describe(), json!({"schema": show(rs)}))),
        }
    }
    if counting {
        let n = rs.node_count();
        let rich = contains(rs, &|x| matches!(x, RSchema::Struct { .. } | RSchema::Enum { .. } | RSchema::Vector(_, _)));
        if n >= 3 && rich {
            st.nontrivial.insert(vcore::rng::fnv64(format!("{:?}", rs).as_bytes()));
        }
        st.class(match n {
            0..=2 => "nodes_1_2",
            3..=8 => "nodes_3_8",
            9..=30 => "nodes_9_30",
            _ => "nodes_31_plus",
        });
        if st.samples.len() < 3 && n >= 5 && n <= 14 {
            st.sample(json!({"schema": show(rs), "format2_bytes": hex(&write_schema(rs, 2))}));
        }
    }
    Ok(())
}

fn reset_method_flags(s: &mut RSchema) {
    let t = |t: &mut RTraitDef| {
        for m in t.methods.iter_mut() {
            m.receiver = 100;
            m.is_async = false;
            reset_method_flags(&mut m.ret);
            for a in m.args.iter_mut() {
                reset_method_flags(a);
            }
        }
    };
    match s {
        RSchema::Struct { fields, .. } => fields.iter_mut().for_each(|f| reset_method_flags(&mut f.value)),
        RSchema::Enum { variants, .. } => variants.iter_mut().for_each(|v| v.fields.iter_mut().for_each(|f| reset_method_flags(&mut f.value))),
        RSchema::Vector(i, _) | RSchema::Option(i) | RSchema::Array(_, i) | RSchema::Boxed(i) | RSchema::Slice(i) | RSchema::Reference(i) => reset_method_flags(i),
        RSchema::Trait(_, d) | RSchema::FnClosure(_, d) | RSchema::Future(d, _, _, _) => t(d),
        _ => {}
    }
}

/// C13 (4): a single wire-altering change is reported in both directions
fn complete_case(rs: &RSchema, pos: u32, r: u64, st: &mut Stats, counting: bool) -> Result<(), SFail> {
    let mut paths = vec![];
    data_paths(rs, &mut vec![], &mut paths);
    let path = &paths[((pos as u64 * paths.len() as u64) >> 32) as usize];
    let mut m = rs.clone();
    let label = match wire_mutate(node_mut(&mut m, path), r) {
        Some(l) => l,
        None => return Ok(()),
    };
    if wire_norm(&m) == wire_norm(rs) {
        if counting {
            *st.excluded.entry("mutation_without_wire_effect".into()).or_insert(0) += 1;
        }
        return Ok(());
    }
    if counting {
        st.evaluations += 1;
    }
    let (a, b) = (to_savefile(rs), to_savefile(&m));
    for (x, y, dir) in [(&a, &b, "original_vs_mutated"), (&b, &a, "mutated_vs_original")] {
        match guard(|| Ok(diff_schema(x, y, "".into(), true))) {
            Out::Ok(Some(_)) => {}
            Out::Ok(None) => {
                return Err(sf(
                    "wire_altering_change_not_reported",
                    format!("{} at depth {}: diff_schema reports no difference ({})", label, path.len(), dir),
                    json!({"mutation": label, "direction": dir, "original": show(rs), "mutated": show(&m)}),
                ))
            }
            o => return Err(sf("diff_panic", o.describe(), json!({"mutation": label, "original": show(rs)}))),
        }
    }
    if counting {
        st.class(&format!("mutation.{}", label));
        st.nontrivial.insert(vcore::rng::fnv64(format!("{:?}{:?}", rs, m).as_bytes()));
        if st.samples.len() < 3 && rs.node_count() < 10 {
            st.sample(json!({"mutation": label, "original": show(rs), "mutated": show(&m)}));
        }
    }
    Ok(())
}

/// C13: arbitrary / corrupted schema bytes never panic; what decodes re-encodes identically
fn fuzz_case(rs: &RSchema, flips: &[(u32, u8)], plus: bool, st: &mut Stats, counting: bool) -> Result<(), SFail> {
    let mut rs = rs.clone();
    if plus {
        // the separator the library itself uses inside persisted trait names
        add_plus(&mut rs);
    }
    for f in [0u16, 1, 2] {
        let mut bytes = write_schema(&rs, f);
        for (p, d) in flips {
            if !bytes.is_empty() {
                let k = ((*p as u64 * bytes.len() as u64) >> 32) as usize;
                bytes[k] ^= d;
            }
        }
        if counting {
            st.evaluations += 1;
        }
        // pre-screen absurd counts with the reference parser (allocation failure would abort)
        if let Err(e) = parse_schema(&bytes, f) {
            if e.starts_with("count ") {
                if counting {
                    st.class("skipped_absurd_count");
                }
                continue;
            }
        }
        let ex = json!({"format": f, "bytes": hex_full(&bytes[..bytes.len().min(2000)])});
        match guard(|| lib_read(&bytes, f)) {
            Out::Err(_) => {
                if counting {
                    st.class("corrupt.err");
                }
            }
            Out::Panic(m) => {
                let kind = if m.contains("Unexpected trait name") { "trait_name" } else if m.contains("capacity overflow") || m.contains("allocat") { "allocation" } else { "other" };
                if kind == "allocation" {
                    continue;
                }
                return Err(sf("schema_bytes_panic", format!("decoding schema bytes at format {} panicked: {}", f, m), json!({"format": f, "panic_kind": kind, "bytes": ex["bytes"]})));
            }
            Out::Ok((s, used)) => {
                if f >= 1 {
                    match guard(|| lib_write(&s, f)) {
                        Out::Ok(again) => {
                            // canonical re-encoding must decode to the same schema
                            match guard(|| lib_read(&again, f)) {
                                Out::Ok((s2, _)) if s2 == s => {}
                                o => return Err(sf("decoded_schema_does_not_reencode", o.describe(), ex)),
                            }
                        }
                        o => return Err(sf("decoded_schema_does_not_reencode", o.describe(), ex)),
                    }
                }
                let _ = used;
                if counting {
                    st.class("corrupt.ok");
                    st.nontrivial.insert(vcore::rng::fnv64(&bytes));
                }
            }
        }
    }
    Ok(())
}

fn add_plus(s: &mut RSchema) {
    let t = |t: &mut RTraitDef| t.name.push_str("+Odd");
    match s {
        RSchema::Struct { fields, .. } => fields.iter_mut().for_each(|f| add_plus(&mut f.value)),
        RSchema::Enum { variants, .. } => variants.iter_mut().for_each(|v| v.fields.iter_mut().for_each(|f| add_plus(&mut f.value))),
        RSchema::Vector(i, _) | RSchema::Option(i) | RSchema::Array(_, i) | RSchema::Boxed(i) | RSchema::Slice(i) | RSchema::Reference(i) => add_plus(i),
        RSchema::Trait(_, d) | RSchema::FnClosure(_, d) | RSchema::Future(d, _, _, _) => t(d),
        _ => {}
    }
}

/// C11-A: layout_compatible
fn layout_case(rs: &RSchema, pos: u32, r: u64, st: &mut Stats, counting: bool) -> Result<(), SFail> {
    let a = to_savefile(rs);
    if counting {
        st.evaluations += 1;
    }
    let unknown = has_unknown_layout(rs);
    let self_compat = match guard(|| Ok(a.layout_compatible(&a))) {
        Out::Ok(x) => x,
        o => return Err(sf("layout_compatible_panic", o.describe(), json!({"schema": show(rs)}))),
    };
    if unknown && self_compat {
        return Err(sf("unknown_layout_reported_compatible", "a schema with an unknown layout somewhere is layout-compatible with itself".into(), json!({"schema": show(rs)})));
    }
    if counting {
        st.class(if self_compat { "identical_fully_annotated.compatible" } else if unknown { "has_unknown.incompatible" } else { "identical_fully_annotated.incompatible" });
    }
    // one layout-relevant mutation
    let mut paths = vec![];
    data_paths(rs, &mut vec![], &mut paths);
    let path = &paths[((pos as u64 * paths.len() as u64) >> 32) as usize];
    let mut m = rs.clone();
    if let Some(label) = layout_mutate(node_mut(&mut m, path), r) {
        if m == *rs {
            return Ok(());
        }
        let b = to_savefile(&m);
        for (x, y, dir) in [(&a, &b, "original_vs_mutated"), (&b, &a, "mutated_vs_original")] {
            match guard(|| Ok(x.layout_compatible(y))) {
                Out::Ok(false) => {}
                Out::Ok(true) => {
                    return Err(sf(
                        "different_layouts_reported_compatible",
                        format!("{} at depth {} ({}): layout_compatible == true", label, path.len(), dir),
                        json!({"mutation": label, "original": show(rs), "mutated": show(&m)}),
                    ))
                }
                o => return Err(sf("layout_compatible_panic", o.describe(), json!({"schema": show(rs)}))),
            }
        }
        if counting {
            st.class(&format!("mutation.{}", label));
            if self_compat {
                // the pair differs in exactly one annotation and the original is accepted as identical to itself
                st.nontrivial.insert(vcore::rng::fnv64(format!("{:?}{:?}", rs, m).as_bytes()));
                if st.samples.len() < 3 && rs.node_count() < 8 {
                    st.sample(json!({"mutation": label, "original": show(rs), "mutated": show(&m), "layout_compatible(original, original)": true, "layout_compatible(original, mutated)": false}));
                }
            }
        }
    }
    Ok(())
}

// ------------------------------------------------------------------------- exhaustive small scope

fn small_trees() -> Vec<RSchema> {
    let leaves = vec![RSchema::Prim(RPrim::U8, 0), RSchema::Prim(RPrim::Str, 3), RSchema::ZeroSize, RSchema::Prim(RPrim::I64, 0), RSchema::Recursion(1)];
    let mut size1 = leaves.clone();
    size1.push(RSchema::Struct { name: "E".into(), fields: vec![], size: Some(0), align: Some(1) });
    size1.push(RSchema::Enum { name: "N".into(), variants: vec![], discr_size: 1, explicit_repr: false, size: None, align: None });
    let wrap = |inner: &RSchema| -> Vec<RSchema> {
        vec![
            RSchema::Vector(Box::new(inner.clone()), 2),
            RSchema::Option(Box::new(inner.clone())),
            RSchema::Boxed(Box::new(inner.clone())),
            RSchema::Array(2, Box::new(inner.clone())),
            RSchema::Struct { name: "S".into(), fields: vec![RField { name: "a".into(), value: inner.clone(), offset: Some(0) }], size: Some(8), align: Some(8) },
            RSchema::Enum {
                name: "En".into(),
                variants: vec![RVariant { name: "V".into(), discr: 0, fields: vec![RField { name: "0".into(), value: inner.clone(), offset: None }] }],
                discr_size: 1,
                explicit_repr: true,
                size: Some(2),
                align: Some(1),
            },
            RSchema::Trait(false, RTraitDef { name: "T".into(), sync: false, send: true, methods: vec![RMethod { name: "m".into(), ret: inner.clone(), receiver: 101, is_async: true, args: vec![] }] }),
        ]
    };
    let mut size2 = vec![];
    for l in &size1 {
        size2.extend(wrap(l));
    }
    let mut size3 = vec![];
    for t in &size2 {
        size3.extend(wrap(t));
    }
    // binary: struct with two fields / enum with two variants over size-1 trees
    for a in &size1 {
        for b in &size1 {
            size3.push(RSchema::Struct {
                name: "P".into(),
                fields: vec![RField { name: "a".into(), value: a.clone(), offset: Some(0) }, RField { name: "b".into(), value: b.clone(), offset: None }],
                size: None,
                align: None,
            });
            size3.push(RSchema::Enum {
                name: "Q".into(),
                variants: vec![
                    RVariant { name: "A".into(), discr: 0, fields: vec![RField { name: "0".into(), value: a.clone(), offset: None }] },
                    RVariant { name: "B".into(), discr: 1, fields: vec![RField { name: "0".into(), value: b.clone(), offset: None }] },
                ],
                discr_size: 2,
                explicit_repr: false,
                size: None,
                align: None,
            });
        }
    }
    let mut all = size1;
    all.extend(size2);
    all.extend(size3);
    all
}

// ------------------------------------------------------------------------- driver

fn run_unit(args: &Args, unit: usize, st: &mut Stats) {
    let prop = args.prop.clone();
    let thorough = args.tier == "thorough";
    let kind = if prop == "C11" { "layout" } else { ["persist", "complete", "fuzz", "small"][unit % 4] };
    let seed = vcore::rng::fnv64(format!("{}/{}/{}", args.seed, prop, unit).as_bytes());
    let cases: u32 = match (kind, thorough) {
        ("layout", false) => 100_000,
        ("layout", true) => 1_500_000,
        ("small", _) => 1,
        (_, false) => 25_000,
        (_, true) => 400_000,
    };
    let mut runner = TestRunner::new(Config { cases, rng_seed: RngSeed::Fixed(seed), failure_persistence: None, max_shrink_iters: 1500, ..Config::default() });
    let cell = RefCell::new((std::mem::take(st), false));
    type Inp = (RSchema, u32, u64, Vec<(u32, u8)>, bool);
    let strat = match kind {
        "layout" => (prop_oneof![3 => schema_strategy(true, true), 1 => schema_strategy(true, false)], any::<u32>(), any::<u64>(), Just(vec![]), Just(false)).boxed(),
        "complete" => (schema_strategy(true, false), any::<u32>(), any::<u64>(), Just(vec![]), Just(false)).boxed(),
        "fuzz" => (root_strategy(false, false), any::<u32>(), any::<u64>(), proptest::collection::vec((any::<u32>(), 1u8..=255), 0..4), proptest::bool::weighted(0.2)).boxed(),
        _ => (root_strategy(false, false), any::<u32>(), any::<u64>(), Just(vec![]), Just(false)).boxed(),
    };
    let run = |inp: &Inp, s: &mut Stats, counting: bool| -> Result<(), SFail> {
        match kind {
            "layout" => layout_case(&inp.0, inp.1, inp.2, s, counting),
            "complete" => complete_case(&inp.0, inp.1, inp.2, s, counting),
            "fuzz" => fuzz_case(&inp.0, &inp.3, inp.4, s, counting),
            _ => persist_case(&inp.0, s, counting),
        }
    };
    let mut fails: Vec<Inp> = vec![];
    if kind == "small" {
        // exhaustive small scope: every tree of the reduced alphabet up to 3 levels
        let mut g = cell.borrow_mut();
        let trees = small_trees();
        g.0.notes.push(format!("exhaustive small scope: {} trees", trees.len()));
        for t in trees {
            let inp: Inp = (t, 0, 0, vec![], false);
            if run(&inp, &mut g.0, true).is_err() {
                fails.push(inp);
                break;
            }
            for pos in [0u32, u32::MAX / 2, u32::MAX] {
                for r in 0..14u64 {
                    let _ = complete_case(&inp_clone(&inp).0, pos, r * 7919 + 3, &mut g.0, true).map_err(|_| fails.push((inp_clone(&inp).0, pos, r * 7919 + 3, vec![], true)));
                }
            }
        }
    }
    let res = if kind == "small" {
        Ok(())
    } else {
        runner.run(&strat, |inp| {
            let mut g = cell.borrow_mut();
            let counting = !g.1;
            match run(&inp, &mut g.0, counting) {
                Ok(()) => Ok(()),
                Err(f) => {
                    g.1 = true;
                    Err(TestCaseError::fail(f.check))
                }
            }
        })
    };
    let (mut s, _) = cell.into_inner();
    if let Err(TestError::Fail(_, inp)) = &res {
        fails.push(inp.clone());
    }
    if let Err(TestError::Abort(r)) = &res {
        s.inconclusive.push(format!("proptest abort: {}", r));
    }
    for inp in fails {
        let mut scratch = Stats::default();
        // the `small` unit marks completeness failures with the flag in position 4
        let r = if kind == "small" && inp.4 { complete_case(&inp.0, inp.1, inp.2, &mut scratch, false) } else { run(&inp, &mut scratch, false) };
        if let Err(f) = r {
            let mut signature = BTreeMap::new();
            signature.insert("check".to_string(), f.check.clone());
            for k in ["mutation", "format", "panic_kind", "direction"] {
                if let Some(v) = f.extra.get(k) {
                    signature.insert(k.to_string(), v.as_str().map(|x| x.to_string()).unwrap_or_else(|| v.to_string()));
                }
            }
            let replay = json!({"kind": "schema_case", "unit_kind": if kind == "small" && inp.4 { "complete" } else if kind == "small" { "persist" } else { kind }, "schema": inp.0, "pos": inp.1, "r": inp.2.to_string(), "flips": inp.3, "plus": inp.4, "failed_check": f.check, "detail": f.detail, "extra": f.extra});
            s.violations.push(Violation { signature, replay });
        } else {
            s.inconclusive.push("failure did not reproduce".into());
        }
    }
    *st = s;
}

fn inp_clone(i: &(RSchema, u32, u64, Vec<(u32, u8)>, bool)) -> (RSchema, u32, u64, Vec<(u32, u8)>, bool) {
    i.clone()
}

fn main() {
    let started = Instant::now();
    let args = parse_args();
    quiet_panics();
    if let Some(path) = &args.replay {
        let body: Value = match std::fs::read_to_string(path).ok().and_then(|s| serde_json::from_str(&s).ok()) {
            Some(v) => v,
            None => std::process::exit(2),
        };
        let c = &body["case"];
        let rs: RSchema = serde_json::from_value(c["schema"].clone()).unwrap();
        let pos = c["pos"].as_u64().unwrap_or(0) as u32;
        let r: u64 = c["r"].as_str().and_then(|x| x.parse().ok()).unwrap_or(0);
        let flips: Vec<(u32, u8)> = serde_json::from_value(c["flips"].clone()).unwrap_or_default();
        let plus = c["plus"].as_bool().unwrap_or(false);
        let mut st = Stats::default();
        let res = match c["unit_kind"].as_str().unwrap_or("") {
            "layout" => layout_case(&rs, pos, r, &mut st, false),
            "complete" => complete_case(&rs, pos, r, &mut st, false),
            "fuzz" => fuzz_case(&rs, &flips, plus, &mut st, false),
            _ => persist_case(&rs, &mut st, false),
        };
        let prop = body["property"].as_str().unwrap_or(&args.prop).to_string();
        match res {
            Ok(()) => {
                println!("replay {}: case passes", path);
                std::process::exit(0)
            }
            Err(f) => {
                println!("replay {}: still fails: [{}] {}", path, f.check, f.detail);
                println!("VIOLATION property={} replay={}", prop, path);
                std::process::exit(1)
            }
        }
    }
    let nunits = 32;
    if args.worker.is_some() {
        let mut shard = Shard::new(&args);
        for unit in 0..nunits {
            if !shard.take(&format!("unit{}", unit)) {
                continue;
            }
            let mut st = Stats::default();
            run_unit(&args, unit, &mut st);
            worker_emit(&st);
        }
        shard.done();
        return;
    }
    let nworkers = std::thread::available_parallelism().map(|n| n.get()).unwrap_or(8).min(16);
    let mut stats = run_workers(&args, nworkers, &[]);
    if args.prop == "C11" {
        // derived-definition part: schemas of generated definition pairs whose memory
        // representations differ (sibling binary c_gate, which links the generated pair crate)
        let exe = std::env::current_exe().unwrap().with_file_name("c_gate");
        match std::process::Command::new(&exe).arg("--prop").arg("C11").arg("--seed").arg(args.seed.to_string()).arg("--verif-dir").arg(&args.verif_dir).output() {
            Ok(o) if o.status.success() => {
                let text = String::from_utf8_lossy(&o.stdout).to_string();
                match text.lines().find_map(|l| l.strip_prefix("STATS ")).and_then(|l| serde_json::from_str::<Stats>(l).ok()) {
                    Some(st) => stats.merge(st),
                    None => stats.inconclusive.push("derived-definition part of C11 produced no statistics".into()),
                }
            }
            other => stats.inconclusive.push(format!("derived-definition part of C11 could not be run: {:?}", other.map(|o| o.status))),
        }
    }
    let (rule, assumptions): (&str, Vec<String>) = if args.prop == "C11" {
        (
            "case = (generated schema tree with layout annotations, one layout-relevant mutation at a generated node: struct/enum size or alignment, a field offset (changed or made unknown), discriminant width, explicit-repr flag, Vec/String layout variant or Unknown, field/variant count, variant discriminant, primitive kind, array length); oracle: layout_compatible(a, m(a)) and layout_compatible(m(a), a) are false, and a tree with an unknown layout anywhere is not compatible with itself; how often fully annotated identical trees are accepted is reported (non-vacuity), not required. non-trivial = the unmutated tree is accepted as compatible with itself, so exactly the mutated annotation decides; distinct by (tree, mutated tree)",
            vec!["decides Schema::layout_compatible on generated schema pairs and on the schemas of generated definition pairs whose memory representations differ by construction (classes derived.*); end-to-end by-reference passing against a separately compiled implementation with randomised layout is not built (see DESIGN.md)".into()],
        )
    } else {
        (
            "case kinds: persist (generated schema over ALL node kinds incl. traits/closures/futures/recursion: library write at format 1 and 2 == reference grammar bytes, read back == original (format 1 modulo receiver/async), reference format-0 bytes decode to the schema minus layout annotations, diff_schema(s,s) == None unless the tree contains Undefined), complete (one wire-altering mutation at a generated data node must be reported by diff_schema in both directions), fuzz (byte flips in valid schema sections and '+segments' in trait names: decode never panics, whatever decodes re-encodes to an equal schema), small (exhaustive: all trees of a reduced alphabet up to 3 levels through persist + 42 mutations each). non-trivial = tree with >= 3 nodes containing a struct, enum or vector / mutation that changes the wire normal form; distinct by tree (and mutated tree)",
            vec!["format 0 is reconstructed from the documented 0.16 -> 0.17 schema expansion (DESIGN.md appendix B)".into()],
        )
    };
    let rep = Report { args: &args, level: "exploration", rule, assumptions, extra_coverage: json!({"units": nunits}), exhaustive: false };
    std::process::exit(finish(rep, stats, started));
}
