pub mod data;
pub mod schema_reader;
