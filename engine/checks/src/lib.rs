pub mod data;
pub mod schema_reader;
pub mod cryptoframe;
pub mod malformed;
