//! C12: the schema reported for a type describes the bytes written for it.
use crate::data::*;
use hcore::ops::*;
use hcore::runner::*;
use serde_json::json;
use vcore::dv::DV;
use vcore::enc::{Cur, EncErr};
use std::collections::BTreeSet;
use vcore::rschema::*;

pub fn c12_case(b: &Batch, ri: usize, vals: &[DV], _k: usize, st: &mut Stats, counting: bool) -> Result<(), Fail> {
    let ops = &b.ops[ri];
    let ty = &b.roots[ri].ty;
    let u = &*b.uni;
    let recursive_ty = u.any_ty(ty, &|t| matches!(t, vcore::ir::Ty::Def(i, _) if u.defs[*i].recursive));
    let versions = if u.has_version_dependence(ty) { u.versions() } else { vec![u.version] };
    for v in versions {
        let schema = match ops.schema(v) {
            Out::Ok(s) => hcore::schema_conv::conv(&s),
            other => {
                return Err(Fail { check: "schema_panic".into(), detail: format!("get_schema failed: {}", other.describe()), extra: json!({"version": v}) })
            }
        };
        if !recursive_ty && schema.contains_recursion() {
            // recorded on the side (known shape: HashMap/IndexMap values, D13d); the bytes cannot be
            // read through such a schema, so this root/version is not explored further
            side_fail(
                Fail {
                    check: "schema_spurious_recursion".into(),
                    detail: "schema of a non-recursive type contains a Recursion marker".into(),
                    extra: json!({"version": v, "schema": format!("{:?}", schema).chars().take(600).collect::<String>()}),
                },
                vals,
            );
            if counting {
                *st.excluded.entry("schema_with_spurious_recursion_marker_not_read".into()).or_insert(0) += 1;
            }
            continue;
        }
        let mut frames = vec![];
        if recursive_ty {
            frame_roots(u, ty, v, &schema, &mut frames, 0);
        }
        for x in vals.iter().take(2) {
            let x = ops.normalize(x);
            if let Err(EncErr::WriterRejects(_)) = u.after_reload(ty, v, &x) {
                if counting {
                    *st.excluded.entry("version_where_documented_writer_refuses".into()).or_insert(0) += 1;
                }
                continue;
            }
            let bytes = match ops.write_vec(Container::Bare, PathK::Single, v, &[x.clone()]) {
                Out::Ok(b) => b,
                other => {
                    return Err(Fail { check: "bare_serialize_failed".into(), detail: other.describe(), extra: json!({"version": v}) });
                }
            };
            if counting {
                st.evaluations += 1;
            }
            let ex = json!({"version": v, "bytes": hex(&bytes), "value": x.render()});
            let model = u.wire_shape(ty, v, &x);
            // 1. reader with the substitutions for the known misdescriptions switched on
            let all: BTreeSet<&'static str> = KNOWN_PATCHES.iter().copied().collect();
            let (shape, hits) = read_with(&schema, &frames, &bytes, &all, model.as_ref(), &ex)?;
            // 2. every substitution that was used is switched off on its own: a failure then
            //    reproduces the known finding for exactly that node (reported without ending
            //    the campaign for this root type)
            for h in hits {
                let mut p = all.clone();
                p.remove(h);
                if let Err(f) = read_with(&schema, &frames, &bytes, &p, model.as_ref(), &ex) {
                    let mut ex2 = ex.clone();
                    ex2["at"] = json!(h);
                    ex2["failure_without_substitution"] = json!(format!("[{}] {}", f.check, f.detail).chars().take(400).collect::<String>());
                    side_fail(
                        Fail {
                            check: "schema_misdescribes_bytes".into(),
                            detail: format!("the schema node {} does not describe the bytes written for it (reader succeeds only when the true layout is substituted)", h),
                            extra: ex2,
                        },
                        vals,
                    );
                }
            }
            match model {
                Some(model) => {
                    let _ = &shape;
                    if counting {
                        st.class("shape_compared");
                        if model.has_seq_or_variant() {
                            st.nontrivial.insert(vcore::rng::fnv64(format!("{}/{}/{}/{}", b.name, ri, v, hex_full(&bytes)).as_bytes()));
                        }
                        if st.samples.len() < 3 && model.has_seq_or_variant() && bytes.len() > 4 {
                            st.sample(json!({"type": ops.type_name(), "version": v, "value": x.render(), "bytes": hex(&bytes), "schema": format!("{:?}", schema).chars().take(300).collect::<String>()}));
                        }
                    }
                }
                None => {
                    if counting {
                        st.class("private_leaf_encoding_consumption_only");
                    }
                }
            }
        }
        // the same type inside a sequence and an array (the library may write those with one raw
        // copy): the schema of Vec<T> / [T; 3] is Vector(schema(T)) / Array(3, schema(T))
        if vals.len() >= 3 {
            let xs: Vec<DV> = vals.iter().take(3).map(|x| ops.normalize(x)).collect();
            if xs.iter().all(|x| u.after_reload(ty, v, x).is_ok()) {
                let all: BTreeSet<&'static str> = KNOWN_PATCHES.iter().copied().collect();
                let models: Option<Vec<Shape>> = xs.iter().map(|x| u.wire_shape(ty, v, x)).collect();
                for (p, sch, model) in [
                    (PathK::Vec, RSchema::Vector(Box::new(schema.clone()), 0), models.clone().map(|m| Shape::Seq(m, false))),
                    (PathK::Arr3, RSchema::Array(3, Box::new(schema.clone())), models.clone().map(Shape::Fields)),
                ] {
                    if recursive_ty {
                        // recursion frames are located inside the root schema object; not re-derived for the wrapper
                        continue;
                    }
                    let bytes = match ops.write_vec(Container::Bare, p, v, &xs) {
                        Out::Ok(b) => b,
                        _ => continue,
                    };
                    if counting {
                        st.evaluations += 1;
                        st.class(&format!("bulk_path_read.{:?}", p));
                    }
                    let ex = json!({"version": v, "path": format!("{:?}", p), "bytes": hex(&bytes)});
                    read_with(&sch, &[], &bytes, &all, model.as_ref(), &ex)?;
                }
            }
        }
    }
    Ok(())
}

/// One run of the schema-driven reader over `bytes`: error, incomplete consumption and (where
/// the model knows the structure) a structure different from the value are failures.
fn read_with(
    schema: &RSchema,
    frames: &[*const RSchema],
    bytes: &[u8],
    patches: &BTreeSet<&'static str>,
    model: Option<&Shape>,
    ex: &serde_json::Value,
) -> Result<(Shape, BTreeSet<&'static str>), Fail> {
    let mut rd = SchemaReader::new(frames.to_vec());
    rd.patches = patches.clone();
    let mut c = Cur::new(bytes);
    let shape = match rd.read(schema, &mut c) {
        Ok(s) => s,
        Err(e) => {
            let mut ex = ex.clone();
            ex["at"] = json!(rd.err_at.clone().unwrap_or_default());
            return Err(Fail { check: "schema_reader_error".into(), detail: format!("schema-driven reader fails on the type's own bytes: {}", e), extra: ex });
        }
    };
    if c.remaining() != 0 {
        return Err(Fail {
            check: "schema_reader_trailing".into(),
            detail: format!("schema-driven reader consumed {} of {} bytes", c.pos, bytes.len()),
            extra: ex.clone(),
        });
    }
    if let Some(model) = model {
        if !Shape::matches(model, &shape) {
            return Err(Fail {
                check: "schema_reader_shape".into(),
                detail: format!("structure read through the schema differs from the value: {}", Shape::first_diff(model, &shape)),
                extra: ex.clone(),
            });
        }
    }
    Ok((shape, rd.patch_hits))
}
