#!/usr/bin/env python3
"""Summarize replay files: group by (check, def features) and print one example each."""
import json,sys,glob,collections
d=sys.argv[1] if len(sys.argv)>1 else '/verif/replays'
groups=collections.defaultdict(list)
for f in sorted(glob.glob(d+'/*.json')):
    try: j=json.load(open(f))
    except Exception as e: continue
    sig=j.get('signature',{})
    key=(j.get('property'),sig.get('check'),sig.get('def_class',sig.get('root_kind','')))
    groups[key].append((f,j))
full = len(sys.argv)>2
for k,v in sorted(groups.items(), key=lambda kv: str(kv[0])):
    f,j=v[0]
    c=j['case']
    print('=====',k,'x',len(v),f.split('/')[-1])
    print('  type:',c.get('root_type'), ' sig:',{a:b for a,b in j['signature'].items() if a not in('check','type')})
    print('  detail:',(c.get('detail') or c.get('stderr_tail') or '')[:500].replace('\n',' | '))
    print('  extra:',json.dumps(c.get('extra'))[:300])
    if full:
        print(c.get('definitions','')[:1200])
        print('  values:',json.dumps(c.get('values'))[:300])
