#!/bin/bash
# usage: tools/try_mutant.sh <patch.diff> <ID> [<ID>...]   — apply a patch to /repo, run quick checks, undo.
# Replays written while the patch is applied go to a scratch directory, not /verif/replays.
P="$1"; shift
cd /repo || exit 2
if ! git diff --quiet; then echo "/repo has uncommitted changes" >&2; exit 2; fi
git apply "$P" || { echo "patch does not apply" >&2; exit 2; }
trap 'git -C /repo checkout -- . ' EXIT
for id in "$@"; do
  out=$(cd /verif && ./check "$id" --tier quick 2>&1); rc=$?
  echo "== $id exit=$rc $(echo "$out" | grep -c '^VIOLATION') violation line(s)"
  echo "$out" | grep "^\[C\|^INCONCL" | cut -c1-300
  echo "$out" | grep '^VIOLATION' | head -3
done
