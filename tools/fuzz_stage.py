#!/usr/bin/env python3
"""Coverage-guided stage of the thorough tier (C06, C13, C14), and replay of its artifacts.

  fuzz_stage.py run <ID> <target> <seconds> <seed>     campaign + triage; merges statistics into evidence/<ID>.json
  fuzz_stage.py replay <ID> <target> <artifact>        re-run one saved input

libFuzzer (+ AddressSanitizer) runs in fork mode from a small corpus of valid inputs written by
fuzz/src/gen_corpus.rs. The semantic oracle is inside the targets (fuzz/src/lib.rs). Every saved
artifact is re-run on its own and classified from the target's output:
  * allocation failure on an absurd declared length (ASan allocation-size-too-big, libFuzzer
    out-of-memory, `memory allocation of N bytes failed`)  -> excepted by C06, counted
  * does not reproduce                                          -> counted, not reported
  * panic / oracle assertion / sanitizer report                 -> signature {check: fuzz_<kind>, target, at}
Signatures are matched against known_findings.jsonl like those of the other checks.
Exit code: 0 nothing unlisted, 1 unlisted violation (VIOLATION lines printed), 2 could not run.
A campaign is only approximately reproducible from the seed; the saved input is the reproducible unit.
"""
import hashlib, json, os, re, shutil, subprocess, sys, time

V = os.path.dirname(os.path.dirname(os.path.abspath(__file__)))
BIN = os.path.join(V, "fuzz/target/x86_64-unknown-linux-gnu/release")
ENV = dict(os.environ, CARGO_NET_OFFLINE="true", RUST_BACKTRACE="0",
           ASAN_OPTIONS="allocator_may_return_null=1:detect_leaks=0:abort_on_error=0")
OOM_MARKS = ("allocation-size-too-big", "out-of-memory (", "memory allocation of", "Failed to allocate", "capacity overflow",
             "AddressSanitizer: out of memory", "requested allocation size")


def build():
    r = subprocess.run(["cargo", "+nightly", "fuzz", "build", "--fuzz-dir", "fuzz"], cwd=V, env=ENV,
                       stdout=subprocess.PIPE, stderr=subprocess.STDOUT, text=True)
    if r.returncode != 0:
        sys.stderr.write(r.stdout[-3000:])
        print("INCONCLUSIVE: fuzz targets do not build", file=sys.stderr)
        sys.exit(2)


def classify(target, path):
    """re-run one input; returns (kind, signature or None, excerpt)"""
    outs = []
    for _ in range(2):
        try:
            r = subprocess.run([os.path.join(BIN, target), path, "-timeout=20", "-rss_limit_mb=4096", "-malloc_limit_mb=2048"],
                               env=ENV, stdout=subprocess.PIPE, stderr=subprocess.STDOUT, text=True, timeout=120, errors="replace")
            outs.append((r.returncode, r.stdout))
        except subprocess.TimeoutExpired:
            outs.append((-9, "timeout"))
    if all(rc == 0 for rc, _ in outs):
        return "not_reproducible", None, ""
    rc, out = next((rc, o) for rc, o in outs if rc != 0)
    if any(rc == 0 for rc, _ in outs):
        return "not_reproducible", None, out[-400:]
    if out == "timeout" or "ERROR: libFuzzer: timeout" in out:
        return "timeout", None, ""
    m = re.search(r"panicked at ([^\n]*):\n([^\n]*)", out)
    if any(k in out for k in OOM_MARKS) and not m:
        return "excepted_oom", None, ""
    if m:
        where, msg = m.group(1), m.group(2)
        if any(k in msg for k in OOM_MARKS):
            return "excepted_oom", None, ""
        # location without line/column, message without numbers: stable across inputs of one root cause
        at = re.sub(r":\d+:\d+$", "", where.strip())
        norm = re.sub(r"\d+", "N", msg.strip())[:120]
        kind = "oracle" if "/verif/fuzz/" in where else "panic"
        return kind, {"check": "fuzz_" + kind, "target": target, "at": at, "message": norm}, out[-1500:]
    m = re.search(r"ERROR: AddressSanitizer: ([a-zA-Z-]+)", out)
    if m:
        frame = re.search(r"#\d+ 0x[0-9a-f]+ in ([^\n]*savefile[^\n]*)", out)
        return "sanitizer", {"check": "fuzz_sanitizer", "target": target, "at": m.group(1), "message": (frame.group(1)[:120] if frame else "")}, out[-2500:]
    if "deadly signal" in out or rc < 0:
        return "signal", {"check": "fuzz_signal", "target": target, "at": "", "message": out[-200:].strip()[:120]}, out[-1500:]
    return "other", {"check": "fuzz_other", "target": target, "at": "", "message": ""}, out[-1500:]


def load_known(prop):
    ks = []
    for l in open(os.path.join(V, "known_findings.jsonl")):
        l = l.strip()
        if l and not l.startswith("#"):
            j = json.loads(l)
            if j.get("status") == "open" and j.get("property") == prop and j.get("match"):
                ks.append(j)
    return ks


def matches(sig, k):
    return all(sig.get(a) == b for a, b in k["match"].items())


def run(prop, target, seconds, seed):
    build()
    work = os.path.join(V, "fuzz/work", target)
    shutil.rmtree(work, ignore_errors=True)
    os.makedirs(os.path.join(work, "art"))
    subprocess.run([os.path.join(BIN, "gen_corpus"), os.path.join(work, "seed_corpus")], env=ENV, check=True)
    corpus = os.path.join(work, "corpus")
    os.makedirs(corpus)
    jobs = min(16, os.cpu_count() or 8)
    log = os.path.join(work, "campaign.log")
    t0 = time.time()
    with open(log, "w") as lf:
        subprocess.run([os.path.join(BIN, target), corpus, os.path.join(work, "seed_corpus", target),
                        "-fork=%d" % jobs, "-max_total_time=%d" % seconds, "-ignore_crashes=1", "-ignore_ooms=1", "-ignore_timeouts=1",
                        "-timeout=10", "-rss_limit_mb=4096", "-malloc_limit_mb=2048", "-max_len=4096",
                        "-artifact_prefix=" + os.path.join(work, "art") + "/", "-seed=%d" % (seed % (2 ** 31) + 1)],
                       env=ENV, stdout=lf, stderr=subprocess.STDOUT, timeout=seconds + 600)
    wall = time.time() - t0
    text = open(log, errors="replace").read()
    execs = 0
    cov = ft = 0
    for m in re.finditer(r"#(\d+): cov: (\d+) ft: (\d+) corp: (\d+)", text):
        execs, cov, ft = int(m.group(1)), int(m.group(2)), int(m.group(3))
    arts = sorted(os.listdir(os.path.join(work, "art")))
    counts = {}
    seen = {}
    for a in arts[:400]:
        kind, sig, excerpt = classify(target, os.path.join(work, "art", a))
        counts[kind] = counts.get(kind, 0) + 1
        if sig:
            key = json.dumps(sig, sort_keys=True)
            if key not in seen:
                seen[key] = (sig, a, excerpt)
    known = load_known(prop)
    known_hits = {}
    unlisted = []
    for key, (sig, a, excerpt) in seen.items():
        k = next((k for k in known if matches(sig, k)), None)
        if k:
            known_hits[k["id"]] = known_hits.get(k["id"], 0) + 1
        else:
            unlisted.append((sig, a, excerpt))
    os.makedirs(os.path.join(V, "replays"), exist_ok=True)
    for sig, a, excerpt in unlisted:
        data = open(os.path.join(work, "art", a), "rb").read()
        dst = os.path.join(V, "replays", "%s-fuzz-%s-%s.bin" % (prop, target, hashlib.sha1(data).hexdigest()[:16]))
        open(dst, "wb").write(data)
        open(dst + ".txt", "w").write(json.dumps(sig) + "\n" + excerpt)
        print("VIOLATION property=%s replay=%s" % (prop, dst))
    # merge into the evidence file written by the proptest stage
    evp = os.path.join(V, "evidence", prop + ".json")
    try:
        ev = json.load(open(evp))
    except Exception:
        ev = {"property_id": prop, "tier": "thorough", "seed": seed, "level": "exploration", "coverage": {}, "assumptions": [], "wall_s": 0, "violations": 0}
    corpus_n = len(os.listdir(corpus))
    ev["coverage"]["coverage_guided_stage"] = {
        "engine": "libFuzzer + AddressSanitizer (cargo-fuzz, nightly; savefile built with its size_sanity_checks feature), fork mode, %d jobs" % jobs,
        "target": "fuzz/fuzz_targets/%s.rs" % target, "seconds": round(wall), "executions": execs, "edge_coverage": cov, "features": ft,
        "corpus_files": corpus_n, "artifacts": len(arts), "artifact_classes": counts, "known_finding_hits": known_hits,
        "oracle": "in-target: no panic / sanitizer report; an accepted input must re-serialize and reload to the same bytes (C06, C13); nothing but the intact stream loads (C14)",
        "note": "approximately reproducible from the seed; each reported artifact is re-run twice outside the campaign before it counts",
    }
    ev["coverage"]["evaluations"] = ev["coverage"].get("evaluations", 0) + execs
    ev["violations"] = ev.get("violations", 0) + len(unlisted)
    ev["wall_s"] = ev.get("wall_s", 0) + wall
    json.dump(ev, open(evp, "w"), indent=1)
    print("[%s] coverage-guided stage %s: %d executions in %ds, cov %d, corpus %d, artifacts %d %s, unlisted %d" %
          (prop, target, execs, wall, cov, corpus_n, len(arts), counts, len(unlisted)), file=sys.stderr)
    shutil.rmtree(work, ignore_errors=True)
    return 1 if unlisted else 0


def replay(prop, target, path):
    build()
    kind, sig, excerpt = classify(target, path)
    if sig is None:
        print("replay %s: %s (no violation)" % (path, kind))
        return 0
    print("replay %s: still fails: %s" % (path, json.dumps(sig)))
    print(excerpt[-600:])
    print("VIOLATION property=%s replay=%s" % (prop, path))
    return 1


if __name__ == "__main__":
    if sys.argv[1] == "run":
        sys.exit(run(sys.argv[2], sys.argv[3], int(sys.argv[4]), int(sys.argv[5])))
    elif sys.argv[1] == "replay":
        sys.exit(replay(sys.argv[2], sys.argv[3], sys.argv[4]))
    sys.exit(2)
