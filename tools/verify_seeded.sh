#!/bin/bash
# usage: tools/verify_seeded.sh <delivery dir (contains patch.diff, demo/, meta.json)> <scratch worktree of /repo>
# Confirms a seeded change independently of its author, in a scratch worktree outside /repo and /verif:
#   1. patch applies to the clean tree and the workspace builds,
#   2. the repository's pinned suite still passes with the patch (219 tests),
#   3. the demonstration fails with the patch and passes without it.
# Prints one line "SEEDED <ID> suite_with_patch=[...] demo_with=<fail|pass> demo_without=<fail|pass>".
# Demo layouts handled: test modules for savefile-test (demo/*.rs, wired by a diff, a wire_demo.sh or a
# `mod` line appended to savefile-test/src/lib.rs), or a stand-alone cargo project (demo/Cargo.toml).
# VERIFY_SKIP names demo files that are expected not to compile without the patch (compile-fail probes).
D="$(cd "$1" && pwd)"; WT="$2"; ID=$(basename "$D")
export CARGO_NET_OFFLINE=true CARGO_BUILD_JOBS="${JOBS:-4}" RUST_BACKTRACE=0
cd "$WT" || exit 2
clean() { git checkout -q -- . ; git clean -fdq savefile-test/src savefile-abi-min-lib/src 2>/dev/null; }
clean
git apply --check "$D/patch.diff" || { echo "SEEDED $ID patch does not apply"; exit 1; }
NX=(cargo nextest run --workspace --no-fail-fast --tool-config-file pb:/w/lib/nextest.toml --profile pb --test-threads "${JOBS:-4}" --offline)
git apply "$D/patch.diff"
SUITE=$("${NX[@]}" 2>&1 | grep -E '^\s*Summary' | tail -1)
LOG=/tmp/seeded/demo_$ID.log; : > $LOG
if [ -f "$D/demo/Cargo.toml" ]; then
  # stand-alone project with path dependencies on the worktree it was written in
  P=$(mktemp -d /tmp/seeded/proj_XXXX); cp -r "$D/demo/." "$P/"; sed -i "s#/tmp/wt[0-9]*#$WT#g" "$P/Cargo.toml"
  run_demo() { (cd "$P" && cargo test -q --offline >>$LOG 2>&1) && echo pass || echo fail; }
  WITH=$(run_demo); git apply -R "$D/patch.diff"; WITHOUT=$(run_demo)
  rm -rf "$P"; clean
  echo "SEEDED $ID suite_with_patch=[$SUITE] demo_with=$WITH demo_without=$WITHOUT"; exit 0
fi
MODS=""
for t in "$D"/demo/*.rs; do
  m=$(basename "$t" .rs)
  case " ${VERIFY_SKIP:-} " in *" $m "*) continue;; esac
  cp "$t" savefile-test/src/; MODS="$MODS $m"
done
W=$(ls "$D"/demo/wire_into_lib*.diff 2>/dev/null | head -1)
if [ -n "$W" ]; then git apply "$W" || { echo "SEEDED $ID demo wiring does not apply"; clean; exit 1; }
elif [ -f "$D/demo/wire_demo.sh" ]; then sh "$D/demo/wire_demo.sh" "$WT" || { echo "SEEDED $ID wire_demo.sh failed"; clean; exit 1; }
fi
for m in $MODS; do grep -q "^mod $m;" savefile-test/src/lib.rs || echo "mod $m;" >> savefile-test/src/lib.rs; done
run_demo() { local r=pass; for m in $MODS; do echo "== $m" >>$LOG; cargo test -q -p savefile-test --offline "$m" >>$LOG 2>&1 || r=fail; done; echo $r; }
WITH=$(run_demo)
git apply -R "$D/patch.diff"
WITHOUT=$(run_demo)
clean
echo "SEEDED $ID suite_with_patch=[$SUITE] demo_with=$WITH demo_without=$WITHOUT"
