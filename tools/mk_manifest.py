#!/usr/bin/env python3
"""Generate /verif/MANIFEST.json from the table below and validate it against the schema."""
import json, sys, os
V = os.path.dirname(os.path.dirname(os.path.abspath(__file__)))

CHECKS = {
 "C01": dict(cat="exploration", design="DESIGN.md §3 C01",
   technique="property-based testing: generated type definitions (typegen) + proptest values, round-trip oracle against a structural reload model",
   text="Generated search over (definition, value, container, path, version): every case saves through the real API and loads back; the result must equal the reference model's expectation and consume exactly the bytes written. Sampling, not proof: a pass means no counterexample among the generated definitions and values.",
   note="Trusted: the Dyn glue (to_dyn/from_dyn) and the structural reload model in vcore; definitions are limited to what typegen emits (catalogue of std/third-party types, derive attributes listed in DESIGN.md §2.1)."),
 "C02": dict(cat="exploration", design="DESIGN.md §3 C02",
   technique="property-based testing: differential against an independent reference encoder/decoder written from the documented format",
   text="Bytes produced by bare_serialize / save_noschema / save are compared byte-for-byte with an encoder written from the documentation (never calling savefile), in both directions (library reads reference bytes). Covers header, schema section framing, payload grammar, determinism.",
   note="Trusted: the reference codec (vcore::enc, vcore::rschema). Leaf types with undocumented private encodings are covered by determinism/round-trip only."),
 "C04": dict(cat="exploration", design="DESIGN.md §3 C04",
   technique="property-based testing: metamorphic relation bulk path == concatenated single path, plus memory-image oracle for types claiming to be packed",
   text="For every generated definition and version: bytes and decoded values through Vec/[T;3]/Box<[T]>/Arc<[T]>/ArrayVec/&[T] must equal the element-wise path, and a type reporting repr_c_optimization_safe(v)==yes must have size_of == encoded length and a raw memory image identical to its field-by-field encoding.",
   note="Trusted: reference encoder; raw memory is only read for types that claim to be padding-free. repr(Rust) layouts get no prediction, only the two-path relations."),
 "C12": dict(cat="exploration", design="DESIGN.md §3 C12",
   technique="property-based testing: independent schema-driven reader parses the library's bytes using only get_schema::<T>(v)",
   text="For every generated definition, version and value the bytes of bare_serialize are parsed by a generic reader that knows only the reported schema; it must consume exactly all bytes and recover the same primitives, lengths and variants as the value. Non-recursive types must not contain Recursion markers. Schema nodes with a known misdescription (open findings) are read with the true layout substituted so that the rest of the type is still checked; each substitution is then switched off on its own to reproduce exactly that finding.",
   note="Trusted: the mirror conversion of savefile::Schema through its public fields; recursion frames of recursive types are located by walking type and schema in parallel."),
}

CHECKS.update({
 "C03": dict(cat="exploration", design="DESIGN.md §3 C03",
   technique="property-based testing over generated evolution histories (stateful generation of edit sequences) with a reference reader as oracle",
   text="Generated histories (documented edit steps at any position, nested, packed neighbours) x every pair saved<=loading x generated values: the value loaded by the later program must equal what the documented rules give (reference decoder of the later program applied to the reference encoding of the earlier one), for plain, schema-less and compressed files.",
   note="Trusted: reference encoder/decoder and the conversion semantics typegen emits for savefile_versions_as. Histories are limited to the documented edit steps."),
 "C18": dict(cat="exploration", design="DESIGN.md §3 C18",
   technique="property-based testing over generated evolution histories: differential against the reference encoder at every older version, plus the two-path packed relations",
   text="For every generated history, every pair (current n, written k<=n) and generated values: bare_serialize at version k must equal the documented encoding at k, the version-k program must read it to the expected value, and the packed/bulk relations must hold at every version (fast path never taken where wire and memory differ).",
   note="Restricted to the edits the property names (field addition, AbiRemoved with/without constructor, appended variants, retired live fields); versions covered by savefile_versions_as or Removed<T> are counted as excluded."),
})

CHECKS.update({
 "C05": dict(cat="exploration", design="DESIGN.md §3 C05",
   technique="property-based testing over generated type pairs (twelve kinds of single-edit wire-altering twins incl. a versioned variant declared before older ones and a variant gaining/losing its payload, insignificant twins, twins that differ only in memory layout, unrelated pairs) with a type-level wire normal form as oracle; enumerated header corruptions",
   text="Ordered pairs (saved type, loaded type) are generated together with values: where the wire normal forms differ load must fail with IncompatibleSchema (never Ok, panic or another error); where the documentation calls the difference insignificant it must succeed with the same value. Header corruptions must be rejected without reading past the 16-byte header.",
   note="Acceptance is asserted only for documented-insignificant differences; pairs that share a normal form carry no expectation. Normal forms of private leaf encodings come from the observed format."),
})

CHECKS.update({
 "C07": dict(cat="fault_enumeration", design="DESIGN.md §3 C07",
   technique="fault enumeration over generated files: every cut offset of every generated file (property-based generation of the values)",
   text="For generated values in all five containers (plain, schema-less, bzip2, encrypted stream, encrypted file) every strict prefix is loaded: the result must be an error or the original value, never another value and never a panic. Cut offsets are enumerated completely per file up to 768 B (quick) / 4 kB (thorough); larger files (multi-chunk encrypted streams) use all offsets near frame boundaries plus a stride.",
   note="Values are sampled (generated); exhaustive only over cut offsets of each generated file. 'Equal value' is judged after the documented reload model (version-dependent fields)."),
 "C08": dict(cat="fault_enumeration", design="DESIGN.md §3 C08",
   technique="fault injection: instrumented Read/Write with proptest-generated chunking/Interrupted schedules and enumerated fault offsets and error kinds",
   text="Writer faults at every offset (six error kinds), flush failures, reader faults at every consumed offset, and generated schedules of short transfers and Interrupted errors, for plain, bzip2 and encrypted streams: a fault must surface as Err (no panic, no success), accepted bytes must be a prefix of the fault-free output (encrypted: whole chunks decrypting to a prefix), and without faults bytes and loaded values must not depend on the schedule.",
   note="Hangs would be reported as inconclusive (exit 2), not as violations. For types containing hash containers byte equality is relaxed to length/decodability because iteration order differs between saves."),
 "C14": dict(cat="fault_enumeration", design="DESIGN.md §3 C14",
   technique="fault enumeration over generated encrypted files: byte modifications, truncations, chunk-level edits, wrong keys; independent frame parser on top of ring; thorough tier adds a coverage-guided libFuzzer campaign (arbitrary bytes and edit scripts on a valid stream)",
   text="Generated values saved as multi-chunk encrypted streams and through save_encrypted_file; every byte position is modified (3 fixed + 1 generated flip; all 255 values on the nonce and first/last length fields), every truncation length, whole-chunk deletion/duplication/swap, wrong passwords and flipped key bits: all must give Err; the intact data with the right key must load.",
   note="Duplicating the final chunk (pure append after the logical end of the stream) is counted as excluded: no reader requests those bytes. File-based modifications are strided for files > 200 B."),
})

CHECKS.update({
 "C06": dict(cat="exploration", design="DESIGN.md §3 C06",
   technique="fuzzing: structure-aware mutation of valid encodings (proptest, role-labelled spans from the reference encoder) with an in-process semantic oracle and crash attribution by worker processes; thorough tier adds a coverage-guided libFuzzer+ASan campaign over 41 catalogue types (oracle in the target)",
   text="Valid encodings of generated types are mutated (lengths, tags, discriminants, chars, UTF-8, small arithmetic on count-like words inside private encodings, truncation, splices, random bodies) and loaded through single and bulk paths: the result must be Ok or Err; panics are violations unless they are allocation failures on a declared length the reference decoder confirms as absurd; for Ok every bool/char/enum discriminant must be valid and no collection may exceed what the input could encode. Process death is attributed to the case by the worker protocol.",
   note="Inputs declaring lengths that would make the allocator fail (abort) or zero-width loops run for hours are skipped by a reference-decoder pre-screen or, when they slip through, counted as excepted (allocation >= 1 GiB for a < 4 kB input; 8 s per-case limit). Debug profile with overflow checks, no sanitizer: invalid values are detected by inspecting the returned memory (bool/char bytes, raw enum tags, bit containers longer than their storage), spatial errors only as crashes. The quick tier uses no sanitizer; the thorough tier's libFuzzer stage (fuzz/c06_catalogue, DESIGN.md §7.7) runs under AddressSanitizer on a nightly build with savefile's size_sanity_checks feature."),
})

CHECKS.update({
 "C09": dict(cat="exploration", design="DESIGN.md §3 C09, engine/ABI_INTEGRATION.md §3",
   technique="property-based testing: generated interface families (abigen) + proptest call programs, differential oracle direct call vs AbiConnection, drop ledger",
   text="Generated exported traits (plain data by value/reference, &str, slices, Result, boxed trait objects, Fn/FnMut closures, boxed futures, async_trait, 0..64 arguments) with recording implementations; generated call programs are run directly and through an AbiConnection: logs of observed arguments, returned values, closure traces and the drop ledger must be identical, scripted panics (literal, formatted, non-string) must reach the caller with their message and leave the connection usable. Code under test runs in forked children so aborts are captured.",
   note="No separately compiled cdylib: references of provably identical layout always travel by pointer. Interfaces are limited to the shapes abigen emits (ABI_INTEGRATION.md §2)."),
 "C10": dict(cat="exploration", design="DESIGN.md §3 C10, engine/ABI_INTEGRATION.md §3",
   technique="property-based testing over generated interface histories: every ordered (caller version, implementation version) pair, reference up/down-conversion model as oracle",
   text="For every ordered pair of revisions of each generated family, arguments, return values, closure arguments and closure results must arrive as upgrade(downgrade(x, sender->min), min->receiver); methods missing on the implementation side must connect and panic naming the method when called; breaking revisions must be rejected at creation. Argument and return directions are counted separately.",
   note="Evolving callback interfaces and variants unknown to the receiver are excluded by construction. Model = abigen::model."),
 "C15": dict(cat="exploration", design="DESIGN.md §3 C15, engine/ABI_INTEGRATION.md §3",
   technique="model-based property testing: proptest sequences of verify_compatiblity runs over revisions of generated interfaces, compared with a ledger model",
   text="Sequences of runs (repeat, advance to a compatible revision, switch to a labelled breaking revision — removed method, changed argument count, argument type, return type or closure signature —, go back) over a fresh or pre-populated temp directory: each run must be Ok exactly when the model (version -> definition recorded at first sight) says the revision is backward compatible, the directory must contain one file per version seen, and re-running an unchanged revision must succeed.",
   note="Hand-edited schema files and Send/Sync/receiver changes are not generated."),
 "C16": dict(cat="exploration", design="DESIGN.md §3 C16, engine/ABI_INTEGRATION.md §3",
   technique="randomised schedule sampling: generated multi-thread programs run in fresh processes with seeded perturbation, compared against the sequential run; watchdog with deadlock confirmation",
   text="LOW ASSURANCE (sampling of schedules only). Generated programs for 2..16 threads create connections (first use and cached, same and different interfaces, attempts towards incompatible revisions whose negotiation fails, nested creation through closures/trait objects and through user code in the implementation's Drop) and call shared connections; results must equal the sequential run and all threads must finish; a stuck process is only reported as a violation after confirmation (all threads asleep with unchanged CPU time over three samples, gdb backtrace attached), otherwise inconclusive. In addition, exhaustively over every generated interface revision (unbounded, `: Send`, `: Send + Sync`), AbiConnection<dyn Trait> must be Send / Sync only if the interface declares it (compile-time answer observed at a monomorphic call site).",
   note="Absence of races/deadlocks is not established. No ThreadSanitizer build, no lock-site hooks, no load_shared_library path (no cdylib)."),
})

CHECKS.update({
 "C11": dict(cat="exploration", design="DESIGN.md §3 C11",
   technique="property-based testing: generated schema trees with layout annotations + single layout-relevant mutations (metamorphic oracle on Schema::layout_compatible), plus generated definition pairs with equal wire format and different memory representation",
   text="Part A: for generated, fully annotated schema trees every single layout-relevant mutation (size, alignment, offset changed or unknown, discriminant width, explicit-repr flag, Vec/String layout, counts, primitive kind, array length) at any depth must make layout_compatible false in both directions, and trees with anything unknown must be incompatible with themselves. Derived part: schemas of generated definition pairs that pass the wire gate but differ in memory (explicit discriminant values) must not be layout compatible. Cross-version by-reference passing is exercised end to end by C10.",
   note="NOT covered: an implementation compiled by another compiler / with -Zrandomize-layout loaded through load_shared_library (no cdylib harness was built); 'different compiler' is therefore only represented at the schema level."),
 "C13": dict(cat="exploration", design="DESIGN.md §3 C13",
   technique="property-based testing with an own generator over all schema node kinds, differential against an independent reference grammar (formats 0/1/2), metamorphic completeness of diff_schema, byte-flip fuzzing of schema sections, exhaustive small scope; thorough tier adds a coverage-guided libFuzzer+ASan campaign on persisted schema bytes",
   text="Generated schema values (all node kinds incl. traits, closures, futures, recursion markers) are written by the library at formats 1 and 2 (bytes must equal the reference grammar) and read back (equal; format 1 modulo receiver/async), reference format-0 bytes must decode to the schema minus layout annotations, diff_schema(s,s) must be None, every single wire-altering mutation must be reported in both directions, and corrupted schema bytes must never panic. A reduced alphabet is enumerated exhaustively up to 3 levels.",
   note="Format 0 is reconstructed from the documented 0.16->0.17 expansion; mutations inside trait definitions are not asserted (not listed by the property)."),
})

CHECKS.update({
 "C17": dict(cat="exploration", design="DESIGN.md §3 C17",
   technique="property-based testing: generated values of generated and catalogue types, invariant check over the introspection tree, model-free stateful generation of navigation command sequences",
   text="For generated values the introspection tree is walked to depth 4 (introspect_len == number of consecutive children, nothing beyond), and generated sequences of Introspector commands (expand by real or made-up key, select nth in/out of range, up, nothing; child limits none/0/1/2/3/usize::MAX) must never panic and every result must satisfy total_index(i).is_some() <=> i < total_len().",
   note="Stable toolchain only. Types without an Introspect impl (Cell<T>, io::Error) are skipped."),
})

NOT_YET = {
}

ALL = ["C%02d" % i for i in range(1, 19)]

def main():
    checks = []
    for pid in ALL:
        if pid not in CHECKS: continue
        c = CHECKS[pid]
        checks.append({
            "property_id": pid,
            "quick_cmd": f"./check {pid} --tier quick",
            "thorough_cmd": f"./check {pid} --tier thorough",
            "evidence_file": f"evidence/{pid}.json",
            "replay_cmd_template": f"./check {pid} --replay {{path}}",
            "engine": "engine",
            "level_claimed": {"category": c["cat"], "text": c["text"], "design_ref": c["design"]},
            "level_note": c["note"],
            "technique": c["technique"],
        })
    na = []
    for pid in ALL:
        if pid in CHECKS: continue
        na.append({"property_id": pid, "reason": NOT_YET.get(pid, "check not built yet in this revision of /verif (work in progress; see DESIGN.md §3 for the planned generated-input check)")})
    m = {
        "version": 1,
        "setup_cmd": "./setup.sh",
        "hooks": {
            "guard": "none",
            "enable": "no hooks are needed: every observation point is public API (DESIGN.md §2.6)",
            "baseline_off_cmd": "cd /repo && cargo nextest run --workspace --no-fail-fast --test-threads 8 --offline || cargo test --workspace --no-fail-fast --offline",
            "source_commits": [],
            "add_only": True,
        },
        "engines": [{"name": "engine", "path": "engine", "serves_properties": [c["property_id"] for c in checks],
                     "kind_free_text": "Rust workspace: typegen (seeded generator of type definitions) + reference model + proptest-driven check binaries, rebuilt against /repo by path dependency"}],
        "checks": checks,
        "not_applicable": na,
        "notes": "All checks are generated-input search against explicit oracles (property-based testing / fuzzing). Exit 2 = inconclusive (harness/build/watchdog), never a verdict. The thorough tier runs each check over several generated batches of definitions (seeds derived from VERIF_SEED; round 0 = the quick tier's batch) with 8-25x the cases per unit; evidence accumulates over the rounds. Sensitivity against 18 independently written property-breaking changes: seeded/ and DESIGN.md §7.6.",
    }
    json.dump(m, open(os.path.join(V, "MANIFEST.json"), "w"), indent=1)
    try:
        import jsonschema
        jsonschema.validate(m, json.load(open("/root/.vp/MANIFEST.schema.json")))
        print("MANIFEST.json valid;", len(checks), "checks,", len(na), "not_applicable")
    except ImportError:
        print("jsonschema not available; not validated")

main()
