#!/bin/bash
# usage: tools/revert_sweep.sh [seed] — for every "fixed" entry of known_findings.jsonl, re-introduces the defect
# (reverse-applies the fix commit to /repo's working tree), runs the quick check of the entry's property,
# restores /repo, and writes /verif/seeded/revert_results_seed<seed>.jsonl. A fixed entry suppresses nothing,
# so the check must report the defect again.
SEED="${1:-0}"
OUT=/verif/seeded/revert_results_seed$SEED.jsonl; : > "$OUT"
cd /repo || exit 2
git diff --quiet || { echo "/repo has uncommitted changes" >&2; exit 2; }
python3 - <<'P' > /tmp/revert_list.txt
import json
for l in open('/verif/known_findings.jsonl'):
    l=l.strip()
    if not l: continue
    j=json.loads(l)
    if j.get('status')=='fixed': print(j['id'], j['property'], j['commit'])
P
while read id prop commit; do
  extra=""
  case "$id" in D3) extra="C03 C18";; D1|D21) extra="C02";; D8) extra="C14";; D6|D4|D26) extra="";; D24) extra="C11";; D16) extra="C05";; esac
  if ! git diff "$commit" "$commit^" | git apply 2>/dev/null && ! { [ -f /verif/seeded/revert_${id}_handmade.diff ] && git apply /verif/seeded/revert_${id}_handmade.diff; }; then
    echo "{\"reverted\":\"$id\",\"commit\":\"$commit\",\"error\":\"reverse patch does not apply\"}" >> "$OUT"; echo "$id: reverse patch does not apply"; git checkout -- .; continue
  fi
  for c in $prop $extra; do
    out=$(cd /verif && VERIF_SEED=$SEED ./check "$c" --tier quick 2>&1); rc=$?
    sigs=$(echo "$out" | grep '^VIOLATION' | sed 's/.*replay=//' | while read f; do python3 -c "import json,sys; print(json.load(open(sys.argv[1]))['signature'].get('check','?'))" "$f" 2>/dev/null; done | sort -u | tr '\n' ',' )
    nv=$(echo "$out" | grep -c '^VIOLATION')
    echo "{\"reverted\":\"$id\",\"commit\":\"$commit\",\"check\":\"$c\",\"seed\":$SEED,\"exit\":$rc,\"violation_lines\":$nv,\"failed_checks\":\"${sigs%,}\"}" >> "$OUT"
    echo "$id ($commit) $c exit=$rc violations=$nv [${sigs%,}]"
  done
  git checkout -- .
done < /tmp/revert_list.txt
find /verif/replays -name '*.json' -delete
