#!/usr/bin/env python3
"""Markdown table for DESIGN.md §7.6.2 from seeded/revert_results_seed0.jsonl and known_findings.jsonl."""
import json
rows = {}
for l in open('/verif/seeded/revert_results_seed0.jsonl'):
    j = json.loads(l)
    rows.setdefault(j['reverted'], []).append(j)
print("| defect | fix commit | re-introduced defect reported by (quick, seed 0) | also run, silent |\n|---|---|---|---|")
for l in open('/verif/known_findings.jsonl'):
    j = json.loads(l)
    if j['status'] != 'fixed':
        continue
    rs = rows.get(j['id'], [])
    caught = ["%s (%s)" % (r['check'], r['failed_checks']) for r in rs if r.get('exit') == 1]
    silent = [r['check'] for r in rs if r.get('exit') == 0]
    if any('error' in r for r in rs) and not caught:
        caught = ["reverse patch conflicts with later fixes; hand-made re-introduction `seeded/revert_%s_handmade.diff`: C04, C03, C18" % j['id']]
    print("| %s (%s) | %s | %s | %s |" % (j['id'], j['property'], j['commit'], "; ".join(caught) or "—", ", ".join(silent) or "—"))
