#!/bin/bash
# usage: tools/seeded_sweep.sh [seed]  — applies every /verif/seeded/<ID>/patch.diff to /repo in turn, runs the quick
# checks listed for it, restores /repo, and writes /verif/seeded/results_seed<seed>.jsonl (one line per (change, check)).
SEED="${1:-0}"
OUT=/verif/seeded/results_seed$SEED.jsonl; : > "$OUT"
declare -A CHK=(
 [C01]="C01 C02 C04" [C02]="C02 C04 C18 C03" [C03]="C03 C04 C18" [C04]="C04 C02 C12" [C05]="C05" [C06]="C06"
 [C07]="C07" [C08]="C08" [C09]="C09" [C10]="C10" [C11]="C11" [C12]="C12 C04" [C13]="C13 C05" [C14]="C14"
 [C15]="C15" [C16]="C16" [C17]="C17" [C18]="C18 C04 C02"
)
cd /repo || exit 2
git diff --quiet || { echo "/repo has uncommitted changes" >&2; exit 2; }
CHK[r2-C04]="C04 C01 C02"; CHK[r2-C05]="C05 C03"; CHK[r2-C11]="C11 C10"; CHK[r2-C12]="C12 C04 C02"; CHK[r2-C15]="C15 C13"
for id in $(ls /verif/seeded | grep -E '^(r[23]-)?C[0-9][0-9]$'); do
  git apply /verif/seeded/$id/patch.diff || { echo "{\"seeded\":\"$id\",\"error\":\"patch does not apply\"}" >> "$OUT"; continue; }
  for c in ${CHK[$id]:-${CHK[${id#r?-}]}}; do
    out=$(cd /verif && VERIF_SEED=$SEED ./check "$c" --tier quick 2>&1); rc=$?
    sigs=$(echo "$out" | grep '^VIOLATION' | sed 's/.*replay=//' | while read f; do python3 -c "import json,sys; print(json.load(open(sys.argv[1]))['signature'].get('check','?'))" "$f" 2>/dev/null; done | sort -u | tr '\n' ',' )
    nv=$(echo "$out" | grep -c '^VIOLATION')
    echo "{\"seeded\":\"$id\",\"check\":\"$c\",\"seed\":$SEED,\"exit\":$rc,\"violation_lines\":$nv,\"failed_checks\":\"${sigs%,}\"}" >> "$OUT"
    echo "$id $c exit=$rc violations=$nv [${sigs%,}]"
  done
  git checkout -- .
done
find /verif/replays -name '*.json' -delete
