#!/usr/bin/env python3
"""Write /verif/seeded/<ID>/meta.json from the author's meta, my own confirmation run (tools/verify_seeded.sh)
and the sweep results (tools/seeded_sweep.sh); print a markdown table for DESIGN.md."""
import json, os, glob, re
S = "/verif/seeded"
confirm = {}
vf = os.path.join(S, "confirmation.txt")
for l in open(vf):
    m = re.match(r"SEEDED ((?:r[23]-)?C\d+) suite_with_patch=\[(.*?)\] demo_with=(\w+) demo_without=(\w+)", l)
    if m:
        confirm[m.group(1)] = {"suite_with_patch": m.group(2).strip(), "demo_with_patch": m.group(3), "demo_without_patch": m.group(4)}
results = {}
for f in sorted(glob.glob(os.path.join(S, "results_seed*.jsonl"))):
    for l in open(f):
        j = json.loads(l)
        results.setdefault(j["seeded"], []).append(j)
rows = []
for d in sorted(os.listdir(S)):
    if not re.match(r"(r[23]-)?C\d\d$", d):
        continue
    a = json.load(open(os.path.join(S, d, "author_meta.json")))
    res = results.get(d, [])
    caught = sorted({r["check"] for r in res if r.get("exit") == 1})
    missed = sorted({r["check"] for r in res if r.get("exit") == 0} - set(caught))
    meta = {
        "property": d[-3:],
        "round": int(d[1]) if d.startswith("r") else 1,
        "origin": "written by an independent sub-agent that saw only the property text and a scratch worktree of /repo (nothing from /verif)",
        "summary": a.get("summary") or a.get("change") or a.get("description"),
        "needs_to_manifest": a.get("needs_to_manifest") or a.get("what_it_needs_to_manifest") or a.get("manifests_when"),
        "files_changed": a.get("files_changed"),
        "confirmed_by_me": dict(confirm.get(d, {}), how="tools/verify_seeded.sh <delivery> <scratch worktree under /tmp>: patch applies to the clean tree, `cargo nextest run --workspace` (the pinned suite) with the patch, demonstration with and without the patch; worktree removed afterwards"),
        "checks_run": [{k: r[k] for k in ("check", "seed", "exit", "violation_lines", "failed_checks") if k in r} for r in res],
        "caught_by": caught,
        "not_caught_by": missed,
        "how_run": "tools/seeded_sweep.sh: git -C /repo apply patch.diff; ./check <ID> --tier quick; git -C /repo checkout -- .",
    }
    json.dump(meta, open(os.path.join(S, d, "meta.json"), "w"), indent=1)
    sigs = "; ".join("%s: %s" % (r["check"], r["failed_checks"]) for r in res if r.get("exit") == 1)
    rows.append("| %s | %s | %s | %s |" % (d, ", ".join(caught) or "—", ", ".join(missed) or "—", sigs))
print("| seeded change | caught by (quick, seed 0) | run but silent | failing oracle(s) |\n|---|---|---|---|")
print("\n".join(rows))
