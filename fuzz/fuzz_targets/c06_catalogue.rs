#![no_main]
//! C06: arbitrary bytes loaded into catalogue types. byte 0 selects the type, byte 1 the data
//! version (0..=1), the rest is the payload for bare_deserialize.
use fuzzlib::*;
use libfuzzer_sys::fuzz_target;

fuzz_target!(|data: &[u8]| {
    if data.len() < 2 {
        return;
    }
    let i = data[0] % CATALOGUE_LEN;
    let version = (data[1] & 1) as u32;
    let _ = run_catalogue(i, version, &data[2..]);
});
