#![no_main]
//! C13: arbitrary bytes as a persisted schema (formats 0, 1, 2). Deserialization must not panic;
//! a schema that was accepted must be writable and read back to something that writes identically.
use libfuzzer_sys::fuzz_target;
use savefile::prelude::*;
use savefile::Schema;
use std::io::Cursor;

fn write(s: &Schema, f: u32) -> Vec<u8> {
    let mut buf = Vec::new();
    {
        let mut ser = Serializer::<Vec<u8>>::new_raw(&mut buf, f);
        s.serialize(&mut ser).expect("serializing a loaded schema failed");
    }
    buf
}

fuzz_target!(|data: &[u8]| {
    if data.is_empty() {
        return;
    }
    let f = (data[0] % 3) as u16;
    let mut cur = Cursor::new(&data[1..]);
    let parsed = fuzzlib::guarded(|| {
        let mut de = savefile::new_schema_deserializer(&mut cur, f);
        Schema::deserialize(&mut de)
    });
    if let Ok(Ok(s)) = parsed {
        let once = write(&s, 2);
        let again = {
            let mut c2 = Cursor::new(&once);
            let mut de = savefile::new_schema_deserializer(&mut c2, 2);
            Schema::deserialize(&mut de).expect("the library rejects a schema it wrote itself")
        };
        let twice = write(&again, 2);
        assert_eq!(once, twice, "schema persistence is not stable");
    }
});
