#![no_main]
//! C14: arbitrary bytes as an encrypted stream under a fixed key: without the ability to forge an
//! AES-GCM tag nothing may load. Inputs starting with 0xFF are instead applied as an edit script to
//! a valid encrypted stream (xor / truncate / splice), which must then be rejected unless unchanged.
use fuzzlib::KEY;
use libfuzzer_sys::fuzz_target;
use savefile::{CryptoReader, CryptoWriter};
use std::sync::OnceLock;

type Payload = (u32, String, Vec<u16>);
fn valid() -> &'static (Payload, Vec<u8>) {
    static V: OnceLock<(Payload, Vec<u8>)> = OnceLock::new();
    V.get_or_init(|| {
        let value: Payload = (0xA1B2C3D4, "the payload".to_string(), (0..300).collect());
        let mut out = Vec::new();
        {
            let mut w = CryptoWriter::new(&mut out, KEY).unwrap();
            savefile::save(&mut w, 0, &value).unwrap();
            w.flush_final().unwrap();
        }
        (value, out)
    })
}

fn try_load(bytes: &[u8]) -> Option<Payload> {
    let mut slice = bytes;
    let mut r = match CryptoReader::new(&mut slice, KEY) {
        Ok(r) => r,
        Err(_) => return None,
    };
    savefile::load::<Payload>(&mut r, 0).ok()
}

fuzz_target!(|data: &[u8]| {
    fuzzlib::init();
    if data.first() == Some(&0xFF) {
        let (value, good) = valid();
        let mut bytes = good.clone();
        let mut it = data[1..].chunks_exact(3);
        for op in &mut it {
            let pos = ((op[0] as usize) << 8 | op[1] as usize) % (bytes.len() + 1);
            match op[2] >> 6 {
                0 | 1 => {
                    if pos < bytes.len() {
                        bytes[pos] ^= (op[2] & 0x3f) + 1;
                    }
                }
                2 => bytes.truncate(pos),
                _ => bytes.insert(pos.min(bytes.len()), op[2]),
            }
        }
        if &bytes != good {
            // an appended tail behind the complete stream is never requested by the reader
            let only_appended = bytes.len() > good.len() && bytes[..good.len()] == good[..];
            if let Some(v) = try_load(&bytes) {
                assert!(only_appended && &v == value, "a modified encrypted stream was accepted");
            }
        } else {
            assert_eq!(try_load(&bytes).as_ref(), Some(value), "the intact stream does not load");
        }
    } else if let Some(v) = try_load(data) {
        panic!("arbitrary bytes were accepted as an encrypted file: {:?}", v.0);
    }
});
