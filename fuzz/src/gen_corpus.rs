//! Writes a small starting corpus of valid inputs for the fuzz targets: gen_corpus <dir>
use fuzzlib::*;
use savefile::prelude::*;
use std::io::Write;

fn main() {
    let dir = std::env::args().nth(1).expect("usage: gen_corpus <dir>");
    for t in ["c06_catalogue", "c13_schema", "c14_crypto"] {
        std::fs::create_dir_all(format!("{}/{}", dir, t)).unwrap();
    }
    for (i, (idx, enc)) in sample_encodings().into_iter().enumerate() {
        let mut f = std::fs::File::create(format!("{}/c06_catalogue/valid_{:02}", dir, i)).unwrap();
        f.write_all(&[idx, 1]).unwrap();
        f.write_all(&enc).unwrap();
    }
    // schemas of the catalogue's derived types at the three persisted formats
    let schemas = [
        savefile::get_schema::<Nested>(1),
        savefile::get_schema::<Versioned>(1),
        savefile::get_schema::<Data>(0),
        savefile::get_schema::<std::collections::BTreeMap<String, Vec<Option<u32>>>>(0),
    ];
    for (i, s) in schemas.iter().enumerate() {
        for f in [1u32, 2] {
            let mut buf = vec![f as u8];
            {
                let mut ser = Serializer::<Vec<u8>>::new_raw(&mut buf, f);
                s.serialize(&mut ser).unwrap();
            }
            std::fs::write(format!("{}/c13_schema/schema_{}_{}", dir, i, f), &buf).unwrap();
        }
    }
    std::fs::write(format!("{}/c14_crypto/edit_none", dir), [0xFFu8]).unwrap();
    std::fs::write(format!("{}/c14_crypto/edit_flip", dir), [0xFFu8, 0, 20, 1]).unwrap();
    std::fs::write(format!("{}/c14_crypto/edit_trunc", dir), [0xFFu8, 0, 40, 0x80]).unwrap();
}
