//! Shared code of the libFuzzer targets: the catalogue of target types for C06 and the oracles.
//! The oracle is in the target (not crash-only): a load that returns Ok must give a value that
//! can be saved again, and saving/loading that value once more must be stable.
#![allow(clippy::type_complexity)]
#![feature(alloc_error_hook)]

use savefile::prelude::*;
use savefile_derive::Savefile;
use std::collections::{BTreeMap, BTreeSet, BinaryHeap, HashMap, VecDeque};
use std::io::Cursor;

#[derive(Savefile, Debug, PartialEq, Clone)]
pub struct Plain {
    pub a: u8,
    pub b: Option<String>,
    pub c: [u16; 3],
}

#[derive(Savefile, Debug, PartialEq, Clone, Copy)]
#[repr(C)]
pub struct PackedC {
    pub a: u32,
    pub b: u32,
}

#[derive(Savefile, Debug, PartialEq, Clone, Copy)]
#[repr(u8)]
pub enum Unit8 {
    A,
    B,
    C,
}

#[derive(Savefile, Debug, PartialEq, Clone)]
pub enum Data {
    Nothing,
    One(u32),
    Two { x: String, y: Vec<u8> },
    Rec(Option<Box<Data>>),
}

#[derive(Savefile, Debug, PartialEq, Clone)]
pub struct Versioned {
    pub a: u16,
    #[savefile_versions = "1.."]
    pub b: Vec<u32>,
    #[savefile_versions = "0..0"]
    pub c: Removed<u64>,
    pub d: Data,
}

#[derive(Savefile, Debug, PartialEq, Clone)]
pub struct Nested {
    pub items: Vec<Plain>,
    pub map: BTreeMap<String, PackedC>,
    pub e: Vec<Unit8>,
    pub t: (bool, char, f32),
}

// ---- allocation failure on absurd declared lengths is excepted by the property: turn it into an
// unwinding panic that the target recognises, instead of an abort that ends the fuzzing process
struct Cap;
const CAP: usize = 1 << 26; // 64 MiB: inputs are at most 4 kB
unsafe impl std::alloc::GlobalAlloc for Cap {
    unsafe fn alloc(&self, l: std::alloc::Layout) -> *mut u8 {
        if l.size() > CAP { std::ptr::null_mut() } else { std::alloc::System.alloc(l) }
    }
    unsafe fn dealloc(&self, p: *mut u8, l: std::alloc::Layout) {
        std::alloc::System.dealloc(p, l)
    }
    unsafe fn realloc(&self, p: *mut u8, l: std::alloc::Layout, n: usize) -> *mut u8 {
        if n > CAP { std::ptr::null_mut() } else { std::alloc::System.realloc(p, l, n) }
    }
    unsafe fn alloc_zeroed(&self, l: std::alloc::Layout) -> *mut u8 {
        if l.size() > CAP { std::ptr::null_mut() } else { std::alloc::System.alloc_zeroed(l) }
    }
}
#[global_allocator]
static ALLOC: Cap = Cap;

thread_local! {
    static IN_GUARD: std::cell::Cell<bool> = std::cell::Cell::new(false);
    static LAST_PANIC: std::cell::RefCell<String> = std::cell::RefCell::new(String::new());
}

/// Install the hooks (idempotent). Outside `guarded` a panic prints and aborts (what libfuzzer-sys
/// does); inside, it is recorded and unwinds to `guarded`.
pub fn init() {
    static ONCE: std::sync::Once = std::sync::Once::new();
    ONCE.call_once(|| {
        std::alloc::set_alloc_error_hook(|l| panic!("memory allocation of {} bytes failed", l.size()));
        let default_hook = std::panic::take_hook();
        std::panic::set_hook(Box::new(move |info| {
            if IN_GUARD.with(|g| g.get()) {
                let msg = info.payload().downcast_ref::<&str>().map(|s| s.to_string()).or_else(|| info.payload().downcast_ref::<String>().cloned()).unwrap_or_default();
                let loc = info.location().map(|l| format!("{}:{}:{}", l.file(), l.line(), l.column())).unwrap_or_default();
                LAST_PANIC.with(|p| *p.borrow_mut() = format!("{}:\n{}", loc, msg));
            } else {
                default_hook(info);
                std::process::abort();
            }
        }));
    });
}

/// Run the library on untrusted input: Ok(result), or Err(()) for an allocation failure on an
/// absurd declared length; any other panic is reported and aborts (a finding).
pub fn guarded<R>(f: impl FnOnce() -> R) -> Result<R, ()> {
    init();
    IN_GUARD.with(|g| g.set(true));
    let r = std::panic::catch_unwind(std::panic::AssertUnwindSafe(f));
    IN_GUARD.with(|g| g.set(false));
    match r {
        Ok(x) => Ok(x),
        Err(_) => {
            let m = LAST_PANIC.with(|p| p.borrow().clone());
            if m.contains("memory allocation of") || m.contains("capacity overflow") || m.contains("Failed to allocate") {
                Err(())
            } else {
                eprintln!("thread 'fuzz' panicked at {}", m);
                std::process::abort();
            }
        }
    }
}

/// data version of the catalogue's definitions
pub const CURRENT_VERSION: u32 = 1;

/// What one execution found.
pub enum Verdict {
    /// load returned Err
    Rejected,
    /// load returned Ok and the value passed the stability checks
    Accepted,
}

fn ser<T: Serialize + Packed>(v: &T, version: u32) -> Vec<u8> {
    let mut out = Vec::new();
    Serializer::bare_serialize(&mut out, version, v).expect("re-serializing a loaded value failed");
    out
}

/// bare_deserialize `data` as T; on Ok: the value must serialize, and the serialized form must
/// load to a value with the same serialized form (ordered containers only).
pub fn load_and_check<T: Serialize + Deserialize + Packed>(data: &[u8], version: u32, ordered: bool, valid: fn(&T) -> bool) -> Verdict {
    let mut cur = Cursor::new(data);
    let loaded = match guarded(|| Deserializer::bare_deserialize::<T>(&mut cur, version)) {
        Ok(r) => r,
        Err(()) => return Verdict::Rejected, // excepted: allocation failure on an absurd declared length
    };
    match loaded {
        Err(_) => Verdict::Rejected,
        Ok(v) => {
            assert!(cur.position() as usize <= data.len(), "reader position beyond the input");
            assert!(valid(&v), "load returned a value that violates its type's invariant (container longer than its storage)");
            // (saved again at the program's own data version: writing version 0 is refused by
            // design for types with a Removed field that is live there)
            let version = CURRENT_VERSION;
            let once = ser(&v, version);
            // a value cannot have been built from fewer bytes than its smallest encoding needs,
            // except through defaults (version-dependent fields), so only a loose bound is asserted
            let again: T = Deserializer::bare_deserialize(&mut Cursor::new(&once), version).expect("the library rejects its own output for a loaded value");
            let twice = ser(&again, version);
            if ordered {
                assert_eq!(once, twice, "save(load(save(v))) != save(v)");
            } else {
                assert_eq!(once.len(), twice.len(), "save(load(save(v))) has a different length than save(v)");
            }
            Verdict::Accepted
        }
    }
}

macro_rules! catalogue {
    ($( $idx:expr => $t:ty, $ordered:expr, $valid:expr; )*) => {
        pub const CATALOGUE_LEN: u8 = 0 $( + { let _ = $idx; 1 } )*;
        pub fn type_name(i: u8) -> &'static str {
            match i { $( $idx => stringify!($t), )* _ => "?" }
        }
        /// dispatch on the first byte of the input
        pub fn run_catalogue(i: u8, version: u32, data: &[u8]) -> Verdict {
            match i {
                $( $idx => load_and_check::<$t>(data, version, $ordered, $valid), )*
                _ => Verdict::Rejected,
            }
        }
        /// valid encodings of default-ish values, for the starting corpus
        pub fn sample_encodings() -> Vec<(u8, Vec<u8>)> {
            let mut out = vec![];
            $( if let Some(v) = <$t as Sample>::sample() { out.push(($idx as u8, ser(&v, 1))); } )*
            out
        }
    };
}

pub trait Sample: Sized {
    fn sample() -> Option<Self> {
        None
    }
}
macro_rules! sample { ($t:ty, $e:expr) => { impl Sample for $t { fn sample() -> Option<Self> { Some($e) } } }; }
macro_rules! nosample { ($($t:ty),* $(,)?) => { $( impl Sample for $t {} )* }; }

sample!(Vec<String>, vec!["ab".to_string(), "".to_string(), "cde".to_string()]);
sample!(Vec<u8>, vec![1, 2, 3, 4, 5]);
sample!(Vec<bool>, vec![true, false, true]);
sample!(Vec<char>, vec!['a', 'é', '\u{10FFFF}']);
sample!(Vec<u32>, vec![1, 0x01020304, u32::MAX]);
sample!(Vec<PackedC>, vec![PackedC { a: 1, b: 2 }, PackedC { a: 3, b: 4 }]);
sample!(Vec<Unit8>, vec![Unit8::A, Unit8::C]);
sample!(Vec<Option<u16>>, vec![Some(7), None]);
sample!(BTreeMap<String, Option<u32>>, [("k".to_string(), Some(1)), ("l".to_string(), None)].into_iter().collect());
sample!(BTreeMap<u32, Vec<String>>, [(1, vec!["x".to_string()])].into_iter().collect());
sample!(BTreeSet<i64>, [1, -1, 5].into_iter().collect());
sample!(HashMap<u32, String>, [(1, "a".to_string()), (2, "b".to_string())].into_iter().collect());
sample!(VecDeque<u16>, [1, 2, 3].into_iter().collect());
sample!(BinaryHeap<u32>, [3, 1, 2].into_iter().collect());
sample!(Option<Box<Plain>>, Some(Box::new(Plain { a: 1, b: Some("s".into()), c: [1, 2, 3] })));
sample!(Result<String, u32>, Ok("fine".to_string()));
sample!((u8, String, Option<bool>), (1, "t".to_string(), Some(true)));
sample!([String; 2], ["a".to_string(), "b".to_string()]);
sample!([PackedC; 3], [PackedC { a: 1, b: 2 }; 3]);
sample!(String, "hello".to_string());
sample!(char, 'x');
sample!(bit_vec::BitVec, bit_vec::BitVec::from_elem(40, true));
sample!(bit_set::BitSet, { let mut b = bit_set::BitSet::new(); b.insert(3); b.insert(70); b });
sample!(arrayvec::ArrayVec<u32, 4>, { let mut a = arrayvec::ArrayVec::new(); a.push(1); a.push(2); a });
sample!(arrayvec::ArrayString<8>, arrayvec::ArrayString::from("abc").unwrap());
sample!(smallvec::SmallVec<[u16; 4]>, smallvec::smallvec![1u16, 2, 3, 4, 5]);
sample!(indexmap::IndexMap<String, u8>, [("a".to_string(), 1u8), ("b".to_string(), 2u8)].into_iter().collect());
sample!(indexmap::IndexSet<u32>, [5u32, 1, 9].into_iter().collect());
sample!(std::time::Duration, std::time::Duration::new(5, 7));
sample!(std::time::SystemTime, std::time::UNIX_EPOCH + std::time::Duration::new(1_000_000, 5));
sample!(std::net::IpAddr, "1.2.3.4".parse().unwrap());
sample!(std::net::SocketAddr, "[::1]:80".parse().unwrap());
sample!(std::path::PathBuf, std::path::PathBuf::from("/a/b"));
sample!(std::sync::Arc<str>, std::sync::Arc::from("arc"));
sample!(std::sync::Arc<[u32]>, std::sync::Arc::from(vec![1u32, 2]));
sample!(Box<[String]>, vec!["x".to_string()].into_boxed_slice());
sample!(std::ops::Range<u32>, 1..9);
sample!(Plain, Plain { a: 9, b: None, c: [7, 8, 9] });
sample!(Data, Data::Two { x: "x".into(), y: vec![1, 2] });
sample!(Versioned, Versioned { a: 1, b: vec![2, 3], c: Removed::new(), d: Data::Rec(Some(Box::new(Data::One(5)))) });
sample!(Nested, Nested { items: vec![Plain { a: 1, b: Some("q".into()), c: [0, 1, 2] }], map: [("m".to_string(), PackedC { a: 1, b: 2 })].into_iter().collect(), e: vec![Unit8::B], t: (true, 'z', 1.5) });
nosample!();

catalogue! {
    0 => Vec<String>, true, |_| true;
    1 => Vec<u8>, true, |_| true;
    2 => Vec<bool>, true, |_| true;
    3 => Vec<char>, true, |_| true;
    4 => Vec<u32>, true, |_| true;
    5 => Vec<PackedC>, true, |_| true;
    6 => Vec<Unit8>, true, |_| true;
    7 => Vec<Option<u16>>, true, |_| true;
    8 => BTreeMap<String, Option<u32>>, true, |_| true;
    9 => BTreeMap<u32, Vec<String>>, true, |_| true;
    10 => BTreeSet<i64>, true, |_| true;
    11 => HashMap<u32, String>, false, |_| true;
    12 => VecDeque<u16>, true, |_| true;
    13 => BinaryHeap<u32>, false, |_| true;
    14 => Option<Box<Plain>>, true, |_| true;
    15 => Result<String, u32>, true, |_| true;
    16 => (u8, String, Option<bool>), true, |_| true;
    17 => [String; 2], true, |_| true;
    18 => [PackedC; 3], true, |_| true;
    19 => String, true, |_| true;
    20 => char, true, |_| true;
    21 => bit_vec::BitVec, true, |b| b.len() <= b.storage().len() * 32 && b.storage().len() <= (b.len() + 31) / 32 && (b.len() % 32 == 0 || b.storage().last().map_or(true, |w| w & !((1u32 << (b.len() % 32)) - 1) == 0));
    22 => bit_set::BitSet, true, |b| b.get_ref().len() <= b.get_ref().storage().len() * 32;
    23 => arrayvec::ArrayVec<u32, 4>, true, |a| a.len() <= a.capacity();
    24 => arrayvec::ArrayString<8>, true, |_| true;
    25 => smallvec::SmallVec<[u16; 4]>, true, |_| true;
    26 => indexmap::IndexMap<String, u8>, true, |_| true;
    27 => indexmap::IndexSet<u32>, true, |_| true;
    28 => std::time::Duration, true, |_| true;
    29 => std::time::SystemTime, true, |_| true;
    30 => std::net::IpAddr, true, |_| true;
    31 => std::net::SocketAddr, true, |_| true;
    32 => std::path::PathBuf, true, |_| true;
    33 => std::sync::Arc<str>, true, |_| true;
    34 => std::sync::Arc<[u32]>, true, |_| true;
    35 => Box<[String]>, true, |_| true;
    36 => std::ops::Range<u32>, true, |_| true;
    37 => Plain, true, |_| true;
    38 => Data, true, |_| true;
    39 => Versioned, true, |_| true;
    40 => Nested, true, |_| true;
}

/// Fixed key of the C14 target.
pub const KEY: [u8; 32] = [7; 32];
